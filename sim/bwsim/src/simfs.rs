//! `SimFs`: the storage seam (`blockwatch::blocks::FileSystem`) backed by an in-memory tree with a
//! seeded walk order and per-path read faults.

use blockwatch::blocks::FileSystem;
use std::cell::RefCell;
use std::collections::BTreeMap;
use std::path::{Path, PathBuf};

#[derive(Clone, Debug)]
pub struct SimEntry {
    pub text: String,
    /// Reads fail with EIO (out-of-scope poison, C15).
    pub poisoned: bool,
}

#[derive(Clone, Debug, PartialEq, Eq, serde::Serialize)]
pub enum FsEvent {
    Walk,
    Read(String),
    ReadPoisoned(String),
    ReadMissing(String),
}

pub struct SimFs {
    pub entries: BTreeMap<String, SimEntry>,
    /// Paths the walk yields, in this order.
    pub walk_order: Vec<String>,
    pub log: RefCell<Vec<FsEvent>>,
}

impl FileSystem for SimFs {
    fn read_to_string(&self, path: &Path) -> anyhow::Result<String> {
        let key = path.to_string_lossy().to_string();
        match self.entries.get(&key) {
            Some(e) if e.poisoned => {
                self.log.borrow_mut().push(FsEvent::ReadPoisoned(key.clone()));
                Err(anyhow::anyhow!(
                    "Failed to read file \"{key}\": Input/output error (os error 5) [simulated: out-of-scope path]"
                ))
            }
            Some(e) => {
                self.log.borrow_mut().push(FsEvent::Read(key));
                Ok(e.text.clone())
            }
            None => {
                self.log.borrow_mut().push(FsEvent::ReadMissing(key.clone()));
                Err(anyhow::anyhow!(
                    "Failed to read file \"{key}\": No such file or directory (os error 2) [simulated]"
                ))
            }
        }
    }

    fn walk(&self) -> impl Iterator<Item = anyhow::Result<PathBuf>> {
        self.log.borrow_mut().push(FsEvent::Walk);
        self.walk_order
            .clone()
            .into_iter()
            .map(|p| Ok(PathBuf::from(p)))
    }
}
