//! Per-property scenario generators, non-triviality rules, signatures and probes.

use crate::exec::Plan;
use crate::genw::{self, Gen, GenCfg};
use crate::model::{self, Expected};
use crate::net::{AiTiming, NetPlan};
use crate::rng::{mix, mix_n, Rng};
use crate::worker::ChildReport;
use crate::world::*;
use std::collections::{BTreeMap, BTreeSet};

pub const PROPS: &[&str] = &["C11", "C13", "C14", "C15", "C18", "C19", "C20"];

#[derive(Clone, Debug)]
pub struct Scenario {
    pub prop: String,
    pub seed: u64,
    pub runs: Vec<(World, Plan)>,
    /// Generator-side labels (configuration, injected fault kinds, ...).
    pub tags: Vec<String>,
}

pub fn scenario_seed(verif_seed: u64, prop: &str, i: u64) -> u64 {
    mix_n(mix(verif_seed, prop), i)
}

pub fn scenario(prop: &str, seed: u64, thorough: bool) -> Scenario {
    let mut sc = match prop {
        "C11" => c11(seed, thorough),
        "C13" => c13(seed, thorough),
        "C14" => c14(seed, thorough),
        "C15" => c15(seed, thorough),
        "C18" => c18(seed, thorough),
        "C19" => c19(seed, thorough),
        "C20" => c20(seed, thorough),
        other => panic!("unknown property {other}"),
    };
    sc.prop = prop.to_string();
    sc.seed = seed;
    for (w, _) in &sc.runs {
        genw::assert_valid(w, prop);
    }
    sc
}

/// Now and then a world far larger than usual: thresholds in the code under test (batch sizes,
/// caps, "first N" shortcuts) only show beyond a certain number of files, blocks or lines.
fn maybe_big(cfg: &mut GenCfg, rng: &mut Rng, tags: &mut Vec<String>) {
    if !rng.chance(1, 40) {
        return;
    }
    match rng.below(3) {
        0 => {
            cfg.files = (12, 34);
            cfg.blocks = (1, 2);
            tags.push("big=files".into());
        }
        1 => {
            cfg.files = (1, 2);
            cfg.blocks = (24, 70);
            cfg.max_lines = 3;
            tags.push("big=blocks".into());
        }
        _ => {
            cfg.files = (1, 3);
            cfg.blocks = (1, 3);
            cfg.max_lines = 120;
            tags.push("big=lines".into());
        }
    }
}

fn block_count(w: &World) -> usize {
    let mut n = 0;
    for f in &w.files {
        for_each_block(&f.blocks, &mut |_| n += 1);
    }
    n
}

/// Re-draws everything that is nondeterminism (and only that).
pub fn redraw_plan(base: &Plan, rng: &mut Rng) -> Plan {
    let mut p = base.clone();
    p.hash_seed = rng.next_u64() | 1;
    p.unit_seed = rng.next_u64() | 1;
    p.walk_seed = rng.next_u64() | 1;
    p.diff_seed = rng.next_u64() | 1;
    for v in p.lua_yields.values_mut() {
        *v = rng.below(30) as u32;
    }
    for v in p.lua_busy.values_mut() {
        *v = rng.below(30) as u32;
    }
    for v in p.lua_load_yields.values_mut() {
        *v = rng.below(6) as u32;
    }
    for t in p.ai_timing.values_mut() {
        *t = AiTiming {
            latency_ms: *rng.pick(&[0u64, 1, 5, 50, 500, 5_000, 60_000]) + rng.below(5) as u64,
            chunk: *rng.pick(&[0usize, 0, 1, 9, 100]),
            chunk_gap_ms: rng.below(10) as u64,
        };
    }
    p.net = match rng.below(4) {
        0 => NetPlan { pipe_capacity: 1, max_read: 1, max_write: 1 },
        1 => NetPlan { pipe_capacity: 13, max_read: 5, max_write: 4 },
        2 => NetPlan { pipe_capacity: 256, max_read: 256, max_write: 31 },
        _ => NetPlan::default(),
    };
    p.workers = *rng.pick(&[1usize, 2, 4, 16]);
    p.cores = *rng.pick(&[1usize, 2, 16]);
    p.create_seed = rng.next_u64();
    p
}

// ------------------------------------------------------------------------------------------ C11

fn c11(seed: u64, thorough: bool) -> Scenario {
    let mut rng = Rng::new(mix(seed, "world"));
    let mut g = Gen::new(&mut rng);
    let cfg = GenCfg {
        files: (2, if thorough { 8 } else { 5 }),
        blocks: (1, if thorough { 5 } else { 3 }),
        p_clean: 25,
        p_sorted: 45,
        p_unique: 40,
        p_pattern: 35,
        p_count: 40,
        p_lua: 25,
        p_ai: 20,
        p_affects: 30,
        ..Default::default()
    };
    let mut cfg = cfg;
    let mut tags = Vec::new();
    maybe_big(&mut cfg, g.rng, &mut tags);
    g.gen_files(&cfg);
    let mode = g.rng.below(100);
    if mode < 45 {
        g.world.stdin = StdinSpec::Terminal;
        tags.push("scan".to_string());
    } else if mode < 80 {
        g.world.stdin = StdinSpec::Piped;
        let n = g.world.files.len();
        g.add_affects(&cfg);
        if g.rng.chance(1, 5) {
            g.add_shared_shorthand_affects();
        }
        for i in 0..n {
            let roll = g.rng.below(8);
            if roll < 5 {
                g.world.files[i].diff = FileDiff::Added;
            } else if roll < 7 {
                // one pure insertion: only the blocks that contain the new line are modified
                if let Some(l) = g.pick_insert_line(i) {
                    g.world.files[i].diff = FileDiff::Insert { line: l, renamed_from: None, edit: LineEdit::Inserted, more: vec![] };
                    g.vary_edit(i);
                    g.maybe_rename(i);
                }
            }
        }
        if g.rng.chance(1, 3) {
            g.world.args.globs = vec!["**/*.py".into(), "**/*.rb".into()];
            if g.rng.chance(1, 4) {
                // globs are case-sensitive: these select nothing
                g.world.args.globs = vec!["**/*.PY".into(), "**/*.Rb".into()];
            } else if g.rng.chance(1, 3) {
                // one argument, two alternatives: the comma belongs to the glob
                g.world.args.globs = vec!["**/*.{py,rb}".into()];
            }
        }
        tags.push("diff".to_string());
    } else {
        if g.rng.chance(1, 2) {
            g.world.stdin = StdinSpec::Piped;
            let n = g.world.files.len();
            for i in 0..n {
                if g.rng.chance(1, 2) {
                    g.world.files[i].diff = FileDiff::Added;
                }
            }
        }
        g.world.args.list = true;
        if g.rng.chance(1, 2) {
            g.world.args.globs = vec!["**".into()];
        }
        tags.push("list".to_string());
    }
    // an --ignore glob for a hidden namesake of an existing directory names nothing
    if g.rng.chance(1, 6) {
        let tops: Vec<String> = g
            .world
            .files
            .iter()
            .filter_map(|f| f.path.split_once('/').map(|(d, _)| d.to_string()))
            .filter(|d| !d.starts_with('.') && !d.contains(['[', '{', '\\']))
            .collect();
        if !tops.is_empty() {
            let d = g.rng.pick(&tops).clone();
            g.world.args.ignore.push(format!(".{d}/**"));
        }
    }
    // an --ignore glob that matches a dotted DIRECTORY's own path (`*.2` for `v1.2/`) but none of
    // the files: ignoring is decided on file paths, a matching ancestor hides nothing
    if g.rng.chance(1, 5) {
        let mut sufs: Vec<String> = Vec::new();
        for f in &g.world.files {
            let comps: Vec<&str> = f.path.split('/').collect();
            for d in &comps[..comps.len() - 1] {
                if let Some((_, suf)) = d.rsplit_once('.') {
                    if !suf.is_empty() && !suf.contains(['[', '{', '\\', '*', '?']) {
                        sufs.push(suf.to_string());
                    }
                }
            }
        }
        sufs.retain(|suf| !g.world.files.iter().any(|f| f.path.ends_with(&format!(".{suf}"))));
        if !sufs.is_empty() {
            let suf = g.rng.pick(&sufs).clone();
            g.world.args.ignore.push(format!("*.{suf}"));
        }
    }
    g.world.args.long_flags = g.rng.chance(1, 2);
    // level B: report paths must stay root-relative wherever the tool is started (only for
    // worlds without scripts, whose paths are cwd-relative by design)
    if !g.uses_lua() && g.rng.chance(1, 3) {
        let dirs: Vec<String> = g
            .world
            .files
            .iter()
            .filter_map(|f| f.path.rsplit_once('/').map(|(d, _)| d.to_string()))
            .collect();
        if !dirs.is_empty() {
            g.world.cwd = g.rng.pick(&dirs).clone();
            tags.push("cwd=subdir".to_string());
        }
    }
    let (world, plan) = g.finish();
    Scenario {
        prop: String::new(),
        seed,
        runs: vec![(world, plan)],
        tags,
    }
}

// ------------------------------------------------------------------------------------------ C13

pub const MALFORMATIONS: &[&str] = &[
    "sort-direction",
    "sort-format",
    "numeric-nonnumeric",
    "regex-keep-sorted-pattern",
    "regex-keep-unique",
    "regex-line-pattern",
    "regex-check-lua-pattern",
    "regex-check-ai-pattern",
    "line-count",
    "affects-no-colon",
    "severity-unknown",
    "lua-empty-path",
    "lua-script-missing",
    "lua-script-directory",
    "lua-script-not-utf8",
    "lua-script-empty",
    "ai-empty-condition",
    "ai-missing-key",
    "ai-empty-key",
];

/// Builds a block that is malformed in exactly the way `kind` says and otherwise clean.
/// Returns the block and the validator that carries the malformation.
fn malformed_block(g: &mut Gen, kind: &str) -> (BlockSpec, &'static str) {
    let mut b = BlockSpec::default();
    let name = g.fresh_name();
    b.attrs.push(("name".into(), name));
    // how much (sorted, unique, lower-case) content the block gets: malformed rules must fail
    // closed on empty and single-entry blocks as well ("with content" = at least one line)
    let n_any = *g.rng.pick(&[0usize, 1, 1, 2, 3, 4]);
    let n_some = *g.rng.pick(&[1usize, 1, 2, 3, 4]);
    let needs_content = kind.starts_with("regex-");
    let pool = ["alpha", "beta", "delta", "gamma"];
    let take = if needs_content { n_some } else { n_any };
    let words = move |b: &mut BlockSpec| {
        b.lines = pool[..take].iter().map(|s| s.to_string()).collect();
    };
    let pick_invalid = |g: &mut Gen| g.rng.pick(model::INVALID_PATTERNS).to_string();
    let carrier: &'static str = match kind {
        "sort-direction" => {
            words(&mut b);
            // padded spellings are not trimmed: they are unknown directions as well
            let v = *g.rng.pick(&["ascending", "up", "asc,desc", "sorted", "descending", "a", "true", " desc", "asc ", "\tDesc  ", " asc "]);
            b.attrs.push(("keep-sorted".into(), v.into()));
            "keep-sorted"
        }
        "sort-format" => {
            words(&mut b);
            b.attrs.push(("keep-sorted".into(), "asc".into()));
            let v = *g.rng.pick(&["number", "num", "lexical", "numeric1", "alpha", "int"]);
            b.attrs.push(("keep-sorted-format".into(), v.into()));
            "keep-sorted"
        }
        "numeric-nonnumeric" => {
            let bad = *g.rng.pick(&["kab", "qq", "x1", "k2"]);
            let desc = g.rng.chance(1, 2);
            let lines: Vec<String> = if g.rng.chance(1, 4) {
                // nothing but non-numeric keys, all of them the same
                vec![bad.to_string(); g.rng.range(2, 3)]
            } else {
                let mut lines: Vec<String> = vec!["1".into(), "2".into(), "7".into(), "10".into()];
                lines.truncate(g.rng.range(1, 4));
                if desc {
                    lines.reverse();
                }
                let pos = g.rng.below(lines.len() + 1);
                lines.insert(pos, bad.into());
                if g.rng.chance(1, 3) {
                    lines.insert(pos, bad.into()); // the same bad key twice in a row
                }
                lines
            };
            b.lines = lines;
            b.attrs.push(("keep-sorted".into(), if desc { "desc" } else { "asc" }.into()));
            b.attrs.push(("keep-sorted-format".into(), "numeric".into()));
            "keep-sorted"
        }
        "regex-keep-sorted-pattern" => {
            words(&mut b);
            b.attrs.push(("keep-sorted".into(), "asc".into()));
            let p = pick_invalid(g);
            b.attrs.push(("keep-sorted-pattern".into(), p));
            "keep-sorted"
        }
        "regex-keep-unique" => {
            words(&mut b);
            let p = pick_invalid(g);
            b.attrs.push(("keep-unique".into(), p));
            "keep-unique"
        }
        "regex-line-pattern" => {
            words(&mut b);
            let p = pick_invalid(g);
            b.attrs.push(("line-pattern".into(), p));
            "line-pattern"
        }
        "regex-check-lua-pattern" => {
            words(&mut b);
            g.add_lua(&mut b, ScriptKind::Good, true);
            b.remove_attr("check-lua-pattern");
            let p = pick_invalid(g);
            b.attrs.push(("check-lua-pattern".into(), p));
            "check-lua"
        }
        "regex-check-ai-pattern" => {
            words(&mut b);
            g.add_ai(&mut b, true);
            b.remove_attr("check-ai-pattern");
            let p = pick_invalid(g);
            b.attrs.push(("check-ai-pattern".into(), p));
            "check-ai"
        }
        "line-count" => {
            words(&mut b);
            let v = *g.rng.pick(&[
                "", " ", "5", "=<3", "< x", "<= 99999999999999999999999", "=> 3", "!= 3", "<", ">= -1",
                "== 3 lines", "< 3.5", "three", "=3",
            ]);
            b.attrs.push(("line-count".into(), v.into()));
            "line-count"
        }
        "affects-no-colon" => {
            words(&mut b);
            let v = *g.rng.pick(&["README.md", "foo", ":ok, nocolon", "a.py:x,b", "", " "]);
            b.attrs.push(("affects".into(), v.into()));
            "affects"
        }
        "severity-unknown" => {
            // the severity is only looked at when the block reports something: give it one
            // violation, from any validator
            let carrier = match g.rng.below(6) {
                0 => {
                    b.lines = vec!["alpha".into(), "alpha".into()];
                    b.attrs.push(("keep-unique".into(), "".into()));
                    "keep-unique"
                }
                1 => {
                    b.lines = vec!["beta".into(), "alpha".into()];
                    b.attrs.push(("keep-sorted".into(), "asc".into()));
                    "keep-sorted"
                }
                2 => {
                    b.lines = vec!["alpha".into()];
                    b.attrs.push(("line-count".into(), ">= 3".into()));
                    "line-count"
                }
                3 => {
                    b.lines = vec!["alpha".into(), "beta=1".into()];
                    b.attrs.push(("line-pattern".into(), "^[a-z]+$".into()));
                    "line-pattern"
                }
                4 => {
                    b.lines = vec!["alpha".into()];
                    g.add_lua(&mut b, ScriptKind::Good, false);
                    b.set_attr("x-ret", "str");
                    "check-lua"
                }
                _ => {
                    b.lines = vec!["alpha".into()];
                    g.add_ai(&mut b, true);
                    let tok = model::find_ai_token(b.attr("check-ai").unwrap()).unwrap();
                    g.world.ai.insert(tok, AiReply::Text("needs a banana".into()));
                    "check-ai"
                }
            };
            let v = *g.rng.pick(&["fatal", "warn", "errors", "", "critical", "1", "error ", " warning", "\tinfo", "hint."]);
            b.attrs.push(("severity".into(), v.into()));
            carrier
        }
        "lua-empty-path" => {
            words(&mut b);
            let v = *g.rng.pick(&["", " ", "   "]);
            b.attrs.push(("check-lua".into(), v.into()));
            "check-lua"
        }
        "lua-script-missing" | "lua-script-directory" | "lua-script-not-utf8" | "lua-script-empty" => {
            words(&mut b);
            let k = match kind {
                "lua-script-missing" => ScriptKind::Missing,
                "lua-script-directory" => ScriptKind::Directory,
                "lua-script-not-utf8" => ScriptKind::NotUtf8,
                _ => ScriptKind::EmptyFile,
            };
            g.add_lua(&mut b, k, true);
            b.remove_attr("check-lua-pattern");
            "check-lua"
        }
        "ai-empty-condition" => {
            words(&mut b);
            let v = *g.rng.pick(&["", " ", "  \t "]);
            b.attrs.push(("check-ai".into(), v.into()));
            "check-ai"
        }
        "ai-missing-key" | "ai-empty-key" => {
            words(&mut b);
            g.add_ai(&mut b, true);
            "check-ai"
        }
        other => panic!("unknown malformation {other}"),
    };
    // a malformed rule must also fail closed when the block carries other, healthy rules
    // (two rules on one block is what the lazy validator detection has to get right)
    if kind != "severity-unknown" && g.rng.chance(1, 3) {
        let extra = match g.rng.below(4) {
            0 if !b.has("line-count") => Some(("line-count", format!("== {}", b.lines.iter().filter(|l| !l.trim().is_empty()).count()))),
            1 if !b.has("keep-unique") && kind != "numeric-nonnumeric" => Some(("keep-unique", String::new())),
            2 if !b.has("keep-sorted") && kind != "numeric-nonnumeric" => Some(("keep-sorted", "asc".to_string())),
            3 if !b.has("line-pattern") && kind != "numeric-nonnumeric" && !b.lines.is_empty() => Some(("line-pattern", "^[a-z0-9=]+$".to_string())),
            _ => None,
        };
        if let Some((k, v)) = extra {
            if g.rng.chance(1, 2) {
                b.attrs.insert(1.min(b.attrs.len()), (k.to_string(), v));
            } else {
                b.attrs.push((k.to_string(), v));
            }
        }
    }
    (b, carrier)
}

/// Makes every block of the world report nothing at error severity (healthy baseline).
fn make_healthy(w: &mut World) {
    for _ in 0..4 {
        let j = model::judge(w);
        let bad: BTreeSet<(String, usize)> = match &j.expected {
            Expected::Report(d) => d
                .iter()
                .filter(|d| d.severity == 1)
                .map(|d| (d.file.clone(), d.block_line))
                .collect(),
            Expected::Failed(_) => panic!("HARNESS-BUG: clean generator produced a failing world"),
            _ => return,
        };
        if bad.is_empty() {
            return;
        }
        for (fi, f) in w.files.iter_mut().enumerate() {
            let layouts: Vec<(Vec<usize>, usize)> = j.rendered[fi]
                .blocks
                .iter()
                .map(|b| (b.path.clone(), b.start_line))
                .collect();
            let path = f.path.clone();
            let mut idx = 0;
            for_each_block_mut(&mut f.blocks, &mut |b| {
                let line = layouts[idx].1;
                idx += 1;
                if bad.contains(&(path.clone(), line)) {
                    b.set_attr("severity", "warning");
                }
            });
        }
    }
}

fn c13(seed: u64, thorough: bool) -> Scenario {
    let mut rng = Rng::new(mix(seed, "world"));
    let mut g = Gen::new(&mut rng);
    let cfg = GenCfg {
        files: (1, if thorough { 6 } else { 4 }),
        blocks: (0, 3),
        p_clean: 85,
        ..Default::default()
    };
    let mut cfg = cfg;
    let mut big_tags = Vec::new();
    maybe_big(&mut cfg, g.rng, &mut big_tags);
    g.gen_files(&cfg);
    let kind = *g.rng.pick(MALFORMATIONS);
    let (mut block, carrier) = malformed_block(&mut g, kind);
    // the malformed rule on an empty block whose two tags share one comment
    if matches!(
        kind,
        "sort-direction" | "sort-format" | "line-count" | "lua-empty-path" | "lua-script-missing" | "lua-script-directory"
            | "lua-script-not-utf8" | "lua-script-empty" | "ai-empty-condition" | "ai-missing-key" | "ai-empty-key"
    ) && g.rng.chance(1, 6)
    {
        block.lines.clear();
        block.tail.clear();
        block.children.clear();
        block.one_comment = true;
    }
    let malformed_attrs = block.attrs.clone();
    // place it
    let nfiles = g.world.files.len();
    let fi = g.rng.below(nfiles);
    if !g.world.files[fi].path.ends_with(".py")
        && !g.world.files[fi].path.ends_with(".rb")
        && !g.world.files[fi].path.ends_with(".sh")
    {
        // malformed blocks use free-form content: keep them in '#' languages
        let stem = g.fresh_name();
        g.world.files[fi].path = format!("{stem}.py");
        g.world.files[fi].blocks.clear();
    }
    if g.world.files[fi].path.contains('\\') {
        // files with a backslash in their name are kept out of diffs (git quotes such paths);
        // the carrier file must be free to appear in one
        let renamed = g.world.files[fi].path.replace('\\', "_");
        if !g.world.files.iter().any(|f| f.path == renamed) {
            g.world.files[fi].path = renamed;
        }
    }
    let pos = g.rng.below(g.world.files[fi].blocks.len() + 1);
    // "placed on any block": now and then as a nested block of a rule-less parent
    let block = if g.rng.chance(1, 5) {
        BlockSpec {
            attrs: if g.rng.chance(1, 2) { vec![("name".into(), g.fresh_name())] } else { vec![] },
            lines: if g.rng.chance(1, 2) { vec!["omega".into()] } else { vec![] },
            children: vec![block],
            tail: vec![],
            one_comment: false,
        }
    } else {
        block
    };
    g.world.files[fi].blocks.insert(pos, block);
    let carrier_path = g.world.files[fi].path.clone();

    // mode
    let variant = g.rng.below(100);
    let diff_mode = kind == "affects-no-colon" || g.rng.chance(2, 5);
    if diff_mode {
        g.world.stdin = StdinSpec::Piped;
        let n = g.world.files.len();
        for i in 0..n {
            if i == fi || g.rng.chance(1, 2) {
                g.world.files[i].diff = FileDiff::Added;
            }
        }
    } else {
        g.world.stdin = StdinSpec::Terminal;
    }
    make_healthy_except(&mut g.world, &carrier_path);
    // ... or one of its content lines was blanked: a replaced line whose new text is empty
    if diff_mode && g.world.files[fi].diff == FileDiff::Added && g.rng.chance(1, 6) {
        let mut placed = false;
        for_each_block_mut(&mut g.world.files[fi].blocks, &mut |b| {
            if !placed && b.attrs == malformed_attrs && b.children.is_empty() && b.lines.len() >= 2 && b.lines[0] != b.lines[1] {
                if !b.lines[0].is_empty() && !b.lines[1].is_empty() {
                    b.lines.insert(1, String::new());
                    placed = true;
                }
            }
        });
        if placed {
            let r = render_file(&g.world.files[fi], false);
            if let Some(b) = r.blocks.iter().find(|b| b.attrs == malformed_attrs && b.tag_lines == 1) {
                let l = b.start_line + 2;
                if r.lines.get(l - 1).is_some_and(|x| x.is_empty()) && g.insert_candidates(fi).contains(&l) {
                    g.world.files[fi].diff = FileDiff::Insert {
                        line: l,
                        renamed_from: None,
                        edit: LineEdit::Replaced { old: "gone-blanked".into() },
                        more: vec![],
                    };
                }
            }
        }
    }
    // the usual way a malformed rule arrives: its start tag was edited, and a content line with it
    if diff_mode && g.rng.chance(1, 3) {
        let r = render_file(&g.world.files[fi], false);
        if let Some(b) = r.blocks.iter().find(|b| b.attrs == malformed_attrs && b.tag_lines == 1) {
            let inside: Vec<usize> = g
                .insert_candidates(fi)
                .into_iter()
                .filter(|l| b.start_line + 1 < *l && *l < b.end_line)
                .collect();
            if !inside.is_empty() && !r.lines[b.start_line - 1].contains('~') && r.lines[b.start_line - 1].is_ascii() {
                let l = *g.rng.pick(&inside);
                g.world.files[fi].diff = FileDiff::Insert {
                    line: b.start_line,
                    renamed_from: None,
                    edit: LineEdit::Replaced { old: "~~~~~~~~".into() },
                    more: vec![(l, LineEdit::Inserted)],
                };
            }
        }
    }
    // positional globs that may or may not match the carrier file: with a diff, a file outside
    // the globs is still examined through the diff; without one it is simply out of scope
    if g.rng.chance(1, 4) {
        let f = g.rng.below(g.world.files.len());
        let path = g.world.files[f].path.clone();
        let name = path.rsplit('/').next().unwrap().to_string();
        let ext = name.rsplit('.').next().unwrap().to_string();
        let gl = if g.rng.chance(1, 2) { format!("**/*.{ext}") } else { format!("**/{name}") };
        g.world.args.globs.push(gl);
    }
    // an --ignore glob (naming nothing, or another file): in the usual flags-first spelling it sits
    // right in front of the positional globs
    if g.rng.chance(1, 4) {
        let f = g.rng.below(g.world.files.len());
        let path = g.world.files[f].path.clone();
        let gl = match g.rng.below(4) {
            0 => "vendor/**".to_string(),
            // directory names of the scratch location itself: globs see root-relative paths only
            1 if g.rng.chance(1, 2) => (*g.rng.pick(&["**/repo/**", "**/shm/**", "**/nested/**", "*/*.lock"])).to_string(),
            1 => "third_party/**".to_string(),
            2 if f != fi => path,
            _ => "**/*.lock".to_string(),
        };
        g.world.args.ignore.push(gl);
    }
    g.world.args.flags_last = g.rng.chance(1, 4);
    let mut tags = vec![format!("kind={kind}"), format!("carrier={carrier}")];
    tags.extend(big_tags);
    let want_failed;
    if variant < 70 {
        want_failed = true;
        tags.push("variant=malformed".into());
    } else if variant < 85 {
        // control: the carrier validator is disabled
        if g.rng.chance(1, 2) {
            g.world.args.disable = vec![carrier.to_string()];
        } else {
            g.world.args.enable = model::VALIDATORS
                .iter()
                .filter(|v| **v != carrier)
                .map(|v| v.to_string())
                .collect();
        }
        want_failed = false;
        tags.push("variant=control-disabled".into());
    } else if variant < 95 {
        // control: the file with the malformed block is out of the diff and not scanned
        g.world.stdin = StdinSpec::Piped;
        g.world.args.globs.clear();
        let n = g.world.files.len();
        for i in 0..n {
            g.world.files[i].diff = if i == fi { FileDiff::None } else { FileDiff::Added };
        }
        want_failed = false;
        tags.push("variant=control-unselected".into());
    } else {
        want_failed = true;
        tags.push("variant=malformed".into());
    }
    match kind {
        "ai-missing-key" => g.world.env.ai_key = None,
        "ai-empty-key" => g.world.env.ai_key = Some(String::new()),
        _ => {}
    }
    let key_fault = matches!(kind, "ai-missing-key" | "ai-empty-key");
    let (mut world, plan) = g.finish();
    if key_fault {
        if kind == "ai-missing-key" {
            world.env.ai_key = None;
        } else {
            world.env.ai_key = Some(String::new());
        }
    }
    let mut got = genw::expected_kind(&world);
    if !(world.args.globs.is_empty() && world.args.ignore.is_empty())
        && ((want_failed && got != "failed") || (!want_failed && got == "failed"))
    {
        // the globs changed the variant's intent (e.g. carrier file out of scope without a diff)
        world.args.globs.clear();
        world.args.ignore.clear();
        got = genw::expected_kind(&world);
    }
    if want_failed && got != "failed" {
        // the one-line edits of the carrier file were moved off the malformed block by a later step
        if let Some(f) = world.files.iter_mut().find(|f| f.path == carrier_path && matches!(f.diff, FileDiff::Insert { .. })) {
            f.diff = FileDiff::Added;
            got = genw::expected_kind(&world);
        }
    }
    if want_failed && got != "failed" {
        panic!("HARNESS-BUG: C13 generator wanted a failing world for {kind}, model says {got}: {}", serde_json::to_string(&world).unwrap());
    }
    if !want_failed && got == "failed" && !key_fault {
        panic!("HARNESS-BUG: C13 control for {kind} still fails per model: {}", serde_json::to_string(&world).unwrap());
    }
    Scenario {
        prop: String::new(),
        seed,
        runs: vec![(world, plan)],
        tags,
    }
}

/// Like `make_healthy` but leaves the deliberately malformed block alone (it is identified by
/// being the one that makes the model fail).
fn make_healthy_except(w: &mut World, _carrier_path: &str) {
    // Temporarily judge the world with every failing reason ignored: severity warnings are only
    // applied to blocks that *report*, which the malformed block (by construction) does not,
    // except for severity-unknown whose block must keep its (unknown) severity.
    let j = model::judge(w);
    let diags: Vec<model::ExpDiag> = match &j.expected {
        Expected::Report(d) => d.clone(),
        _ => {
            // failing world: compute would-be diagnostics by judging with failures masked
            let mut probe = w.clone();
            mask_malformed(&mut probe);
            match model::judge(&probe).expected {
                Expected::Report(d) => d,
                _ => Vec::new(),
            }
        }
    };
    let bad: BTreeSet<(String, usize)> = diags
        .iter()
        .filter(|d| d.severity == 1)
        .map(|d| (d.file.clone(), d.block_line))
        .collect();
    if bad.is_empty() {
        return;
    }
    for (fi, f) in w.files.iter_mut().enumerate() {
        let lines: Vec<usize> = j.rendered[fi].blocks.iter().map(|b| b.start_line).collect();
        let path = f.path.clone();
        let mut idx = 0;
        for_each_block_mut(&mut f.blocks, &mut |b| {
            let line = lines[idx];
            idx += 1;
            if bad.contains(&(path.clone(), line)) && b.attr("severity").is_none_or(|s| model_known_severity(s)) {
                b.set_attr("severity", "warning");
            }
        });
    }
}

fn model_known_severity(s: &str) -> bool {
    matches!(s.to_ascii_lowercase().as_str(), "error" | "warning" | "info" | "hint")
}

/// Removes every attribute that could make the model fail, so that the remaining diagnostics
/// can be computed (used only to find blocks that need `severity=warning`).
fn mask_malformed(w: &mut World) {
    w.env.ai_key = Some("k".into());
    w.env.ai_refuse_connections = false;
    let scripts = w.scripts.clone();
    for f in &mut w.files {
        for_each_block_mut(&mut f.blocks, &mut |b| {
            let probe = World {
                files: vec![FileSpec {
                    path: "t.py".into(),
                    blocks: vec![BlockSpec {
                        attrs: b.attrs.clone(),
                        lines: b.lines.clone(),
                        children: vec![],
                        tail: b.tail.clone(),
                        one_comment: b.one_comment,
                    }],
                    diff: FileDiff::Added,
                    ..Default::default()
                }],
                stdin: StdinSpec::Piped,
                scripts: scripts.clone(),
                env: EnvSpec {
                    ai_key: Some("k".into()),
                    ..Default::default()
                },
                ..Default::default()
            };
            if matches!(model::judge(&probe).expected, Expected::Failed(_)) {
                b.attrs.retain(|(k, _)| k == "name");
            }
        });
    }
}

// ------------------------------------------------------------------------------------------ C14

fn c14(seed: u64, thorough: bool) -> Scenario {
    let mut rng = Rng::new(mix(seed, "world"));
    let mut g = Gen::new(&mut rng);
    let sparse = g.rng.chance(1, 2);
    let cfg = GenCfg {
        files: (1, if thorough { 7 } else { 5 }),
        blocks: (1, 3),
        p_clean: 20,
        p_sorted: if sparse { 12 } else { 35 },
        p_unique: if sparse { 12 } else { 30 },
        p_pattern: if sparse { 12 } else { 25 },
        p_count: if sparse { 12 } else { 30 },
        p_lua: if sparse { 10 } else { 15 },
        p_ai: if sparse { 10 } else { 12 },
        p_affects: 20,
        nesting: false,
        ..Default::default()
    };
    g.gen_files(&cfg);
    let mut tags = Vec::new();
    if g.rng.chance(1, 3) {
        g.world.stdin = StdinSpec::Piped;
        let n = g.world.files.len();
        g.add_affects(&cfg);
        if g.rng.chance(1, 5) {
            g.add_shared_shorthand_affects();
        }
        for i in 0..n {
            let roll = g.rng.below(8);
            if roll < 5 {
                g.world.files[i].diff = FileDiff::Added;
            } else if roll < 7 {
                if let Some(l) = g.pick_insert_line(i) {
                    g.world.files[i].diff = FileDiff::Insert { line: l, renamed_from: None, edit: LineEdit::Inserted, more: vec![] };
                    g.vary_edit(i);
                    g.maybe_rename(i);
                }
            }
        }
    }
    // sometimes plant a malformed rule that the flags may or may not switch off
    if g.rng.chance(1, 4) {
        let kind = *g.rng.pick(&["sort-direction", "line-count", "regex-line-pattern", "lua-script-missing", "ai-empty-condition", "severity-unknown", "severity-unknown"]);
        let (b, _) = malformed_block(&mut g, kind);
        let n = g.world.files.len();
        let fi = g.rng.below(n);
        if genw::HASH_EXTS.iter().any(|e| g.world.files[fi].path.ends_with(&format!(".{e}"))) {
            g.world.files[fi].blocks.push(b);
            tags.push(format!("planted={kind}"));
        }
    }
    // flags
    let shape = g.rng.below(100);
    // every subset size, including "all seven" and "all but one"
    let mut subset: Vec<String> = match g.rng.below(8) {
        0 => model::VALIDATORS.iter().map(|v| v.to_string()).collect(),
        1 => {
            // all but one, often with one of the six repeated (seven flags, six distinct names)
            let skip = g.rng.below(model::VALIDATORS.len());
            let mut v: Vec<String> =
                model::VALIDATORS.iter().enumerate().filter(|(i, _)| *i != skip).map(|(_, v)| v.to_string()).collect();
            if g.rng.chance(2, 3) {
                let d = g.rng.pick(&v).clone();
                v.push(d);
            }
            v
        }
        _ => {
            let k = g.rng.range(1, 5);
            (0..k).map(|_| g.rng.pick(model::VALIDATORS).to_string()).collect()
        }
    };
    g.rng.shuffle(&mut subset);
    if g.rng.chance(1, 4) {
        let d = subset[0].clone();
        subset.push(d); // a repeated flag must compose as set union
    }
    if shape < 40 {
        g.world.args.disable = subset;
        tags.push("flags=disable".into());
    } else if shape < 80 {
        g.world.args.enable = subset;
        tags.push("flags=enable".into());
    } else if shape < 88 {
        g.world.args.disable = subset;
        g.world.args.enable = vec![g.rng.pick(model::VALIDATORS).to_string()];
        tags.push("flags=both".into());
    } else if shape < 95 {
        // unknown names: fixed look-alikes, or a real name damaged in one place
        let bogus: String = if g.rng.chance(1, 3) {
            g.rng.pick(&["keep_sorted", "sorted", "all", "", "check", "lua", "*", "keep-sorted,keep-unique"]).to_string()
        } else {
            let real = *g.rng.pick(model::VALIDATORS);
            match g.rng.below(7) {
                0 => real.to_uppercase(),
                1 => {
                    let mut c: Vec<char> = real.chars().collect();
                    let i = g.rng.below(c.len());
                    c[i] = c[i].to_ascii_uppercase();
                    let t: String = c.into_iter().collect();
                    if t == real { format!("{real}X") } else { t }
                }
                2 => format!("{real} "),
                3 => format!(" {real}"),
                4 => real.replace('-', "_"),
                5 => real[..real.len() - 1].to_string(),
                _ => format!("{real}s"),
            }
        };
        if g.rng.chance(1, 2) {
            g.world.args.disable = vec![bogus.clone()];
            if g.rng.chance(1, 3) {
                g.world.args.disable.push(g.rng.pick(model::VALIDATORS).to_string());
            }
        } else {
            g.world.args.enable = vec![bogus.clone()];
            if g.rng.chance(1, 3) {
                g.world.args.enable.insert(0, g.rng.pick(model::VALIDATORS).to_string());
            }
        }
        tags.push("flags=unknown".into());
    } else {
        tags.push("flags=none".into());
    }
    g.world.args.long_flags = g.rng.chance(1, 2);
    g.world.args.flags_last = g.rng.chance(1, 3);
    g.world.args.joined_flags = g.rng.chance(1, 3);
    // the flags are global: `list` must reject the same flag combinations, also when the flags
    // stand on different sides of the subcommand
    if (80..95).contains(&shape) && g.rng.chance(1, 3) {
        g.world.args.list = true;
        g.world.args.split_flags = g.rng.chance(2, 3);
        tags.push("list".into());
    }
    // positional globs next to the flags (and next to a diff: files the globs do not match are
    // then examined through the diff only)
    if g.rng.chance(1, 3) {
        let n = g.rng.range(1, 2);
        for _ in 0..n {
            let f = g.rng.below(g.world.files.len());
            let path = g.world.files[f].path.clone();
            let name = path.rsplit('/').next().unwrap().to_string();
            let ext = name.rsplit('.').next().unwrap().to_string();
            let gl = match g.rng.below(3) {
                0 => format!("**/*.{ext}"),
                1 => format!("**/{name}"),
                _ => "**/*.rb".to_string(),
            };
            g.world.args.globs.push(gl);
        }
        tags.push("globs".into());
    }
    let (world, plan) = g.finish();
    let mut prng = Rng::new(mix(seed, "plans"));
    let k = if thorough { 12 } else { 4 };
    let mut runs = vec![(world.clone(), plan.clone())];
    for _ in 1..k {
        let mut p = plan.clone();
        p.hash_seed = prng.next_u64() | 1;
        p.unit_seed = prng.next_u64() | 1;
        p.walk_seed = prng.next_u64() | 1;
        runs.push((world.clone(), p));
    }
    Scenario {
        prop: String::new(),
        seed,
        runs,
        tags,
    }
}

// ------------------------------------------------------------------------------------------ C15

fn c15(seed: u64, thorough: bool) -> Scenario {
    let mut rng = Rng::new(mix(seed, "world"));
    let mut g = Gen::new(&mut rng);
    let cfg = GenCfg {
        files: (2, if thorough { 9 } else { 6 }),
        blocks: (1, 2),
        p_clean: 30,
        p_lua: 0,
        p_ai: 0,
        nesting: false,
        max_lines: 4,
        ..Default::default()
    };
    g.gen_files(&cfg);
    let mut tags = Vec::new();
    // force interesting directory names now and then
    if g.rng.chance(1, 2) {
        let n = g.world.files.len();
        let i = g.rng.below(n);
        let ext = *g.rng.pick(genw::HASH_EXTS);
        let p = match g.rng.below(6) {
            0 => format!("b/x{i}.{ext}"),
            1 => format!("b/b/x{i}.{ext}"),
            2 => format!("a/x{i}.{ext}"),
            3 => format!("a/b/x{i}.{ext}"),
            4 => format!("my dir/sub dir/x{i}.{ext}"),
            _ => format!("b/a/b/x{i}.{ext}"),
        };
        if !g.world.files.iter().any(|f| f.path == p || f.path.starts_with(&format!("{p}/")) || p.starts_with(&format!("{}/", f.path))) {
            if !genw::WRAP_EXTS.iter().any(|e| g.world.files[i].path.ends_with(&format!(".{e}"))) {
                g.world.files[i].path = p;
            }
        }
    }
    // hidden / vcs-ignored files
    let n = g.world.files.len();
    for i in 0..n {
        if g.rng.chance(1, 7) {
            let f = &mut g.world.files[i];
            let name = f.path.rsplit('/').next().unwrap().to_string();
            let dir = f.path.strip_suffix(&name).unwrap().to_string();
            if g.rng.chance(1, 2) {
                f.path = format!("{dir}.{name}");
            } else {
                f.path = format!(".hidden/{dir}{name}");
            }
            f.unwalkable = true;
        } else if g.rng.chance(1, 10) {
            let f = &mut g.world.files[i];
            let name = f.path.rsplit('/').next().unwrap().to_string();
            let dir = f.path.strip_suffix(&name).unwrap().to_string();
            f.path = format!("{dir}gen_{name}");
            f.unwalkable = true;
            if !g.world.gitignore.iter().any(|l| l == "gen_*") {
                g.world.gitignore.push("gen_*".into());
            }
        } else if g.rng.chance(1, 12) {
            // a whole git-ignored directory
            let f = &mut g.world.files[i];
            let name = f.path.rsplit('/').next().unwrap().to_string();
            let dir = f.path.strip_suffix(&name).unwrap().to_string();
            f.path = format!("{dir}out/{name}");
            f.unwalkable = true;
            if !g.world.gitignore.iter().any(|l| l == "out/") {
                g.world.gitignore.push("out/".into());
            }
        }
    }
    // dedupe paths that collided through renaming
    let mut seen = BTreeSet::new();
    g.world.files.retain(|f| seen.insert(f.path.clone()));
    let paths: Vec<String> = g.world.files.iter().map(|f| f.path.clone()).collect();
    if paths.iter().any(|p| paths.iter().any(|q| q != p && q.starts_with(&format!("{p}/")))) {
        g.world.files.retain(|f| !paths.iter().any(|q| q != &f.path && q.starts_with(&format!("{}/", f.path))));
    }

    let all_exts: BTreeSet<String> = g
        .world
        .files
        .iter()
        .map(|f| f.path.rsplit('.').next().unwrap().to_string())
        .collect();
    let mut make_glob = |g: &mut Gen| -> String {
        let files = &g.world.files;
        let f = &files[g.rng.below(files.len())];
        let comps: Vec<&str> = f.path.split('/').collect();
        let name = comps.last().unwrap().to_string();
        // a file name without a dot (`BUILD`) has no extension: only the name-based forms apply
        let Some((_, ext)) = name.rsplit_once('.') else {
            return if g.rng.chance(1, 2) { format!("**/{name}") } else { f.path.clone() };
        };
        let ext = ext.to_string();
        match g.rng.below(10) {
            // globs that name a *directory* (they match no file below it: a glob matches whole paths)
            7 if comps.len() > 1 => format!("**/{}", comps[comps.len() - 2]),
            8 if comps.len() > 1 => comps[..comps.len() - 1].join("/"),
            9 if comps.len() > 1 && comps[comps.len() - 2].contains('.') => {
                format!("*.{}", comps[comps.len() - 2].rsplit('.').next().unwrap())
            }
            0 if g.rng.chance(1, 4) => format!("**/*.{{{ext},zz}}"),
            0 => format!("**/*.{ext}"),
            1 if comps.len() > 1 => format!("{}/**", comps[0]),
            2 if comps.len() > 2 => format!("{}/{}/**", comps[0], comps[1]),
            3 if comps.len() > 1 => format!("{}/**/*.{ext}", comps[0]),
            4 => format!("**/{name}"),
            5 => f.path.clone(),
            // `*` crosses directory separators: `*.ext` selects matching files at every depth and
            // `dir/*.ext` every matching file below `dir`
            6 => format!("*.{ext}"),
            9 if comps.len() > 1 => format!("{}/*.{ext}", comps[0]),
            // `*/*.ext`: at least one directory level
            9 => format!("*/*.{ext}"),
            _ => format!("**/*.{ext}"),
        }
    };
    // letter case matters in globs: a glob that fits a path only when case is disregarded fits nothing
    let flip_case = |gl: String, g: &mut Gen| -> String {
        if g.rng.chance(1, 12) && !gl.contains(['[', '{']) {
            let mut done = false;
            gl.chars()
                .map(|c| {
                    if !done && c.is_ascii_alphabetic() {
                        done = true;
                        if c.is_ascii_lowercase() { c.to_ascii_uppercase() } else { c.to_ascii_lowercase() }
                    } else {
                        c
                    }
                })
                .collect()
        } else {
            gl
        }
    };
    let ng = *g.rng.pick(&[0usize, 0, 1, 1, 2, 3]);
    for _ in 0..ng {
        let gl = make_glob(&mut g);
        let gl = flip_case(gl, &mut g);
        g.world.args.globs.push(gl);
    }
    // every positional argument an exact path, one of them naming a hidden / git-ignored file:
    // naming such a file does not bring it into scope (only a diff does)
    if g.rng.chance(1, 10) {
        let plain = |p: &str| !p.contains(['[', '{', '\\', '*', '?']);
        let hidden: Vec<String> =
            g.world.files.iter().filter(|f| f.unwalkable && plain(&f.path)).map(|f| f.path.clone()).collect();
        if !hidden.is_empty() {
            let mut globs = vec![g.rng.pick(&hidden).clone()];
            if g.rng.chance(1, 2) {
                let others: Vec<String> = g.world.files.iter().filter(|f| plain(&f.path)).map(|f| f.path.clone()).collect();
                globs.push(g.rng.pick(&others).clone());
                globs.dedup();
            }
            g.world.args.globs = globs;
            tags.push("globs=exact-paths-incl-unwalkable".into());
        }
    }
    let ni = *g.rng.pick(&[0usize, 0, 1, 1, 2, 3]);
    for _ in 0..ni {
        let gl = make_glob(&mut g);
        let gl = flip_case(gl, &mut g);
        g.world.args.ignore.push(gl);
    }
    let _ = all_exts;
    // stdin
    let mode = g.rng.below(100);
    if mode < 35 {
        g.world.stdin = StdinSpec::Terminal;
        tags.push("stdin=terminal".into());
    } else if mode < 45 {
        g.world.stdin = StdinSpec::Piped;
        tags.push("stdin=empty".into());
    } else {
        g.world.stdin = StdinSpec::Piped;
        let n = g.world.files.len();
        for i in 0..n {
            let roll = g.rng.below(10);
            if roll < 4 {
                g.world.files[i].diff = FileDiff::Added;
            } else if roll < 6 {
                if let Some(l) = g.pick_insert_line(i) {
                    g.world.files[i].diff = FileDiff::Insert { line: l, renamed_from: None, edit: LineEdit::Inserted, more: vec![] };
                    g.vary_edit(i);
                    g.maybe_rename(i);
                }
            } else if roll < 7 && !g.world.files[i].unwalkable {
                g.world.files[i].diff = FileDiff::Deleted;
            }
        }
        tags.push("stdin=diff".into());
    }
    g.world.args.list = g.rng.chance(1, 3);
    g.world.args.joined_flags = g.rng.chance(1, 3);
    g.world.poison_out_of_scope = true;
    // cwd for level B
    let dirs: BTreeSet<String> = g
        .world
        .files
        .iter()
        .filter(|f| !matches!(f.diff, FileDiff::Deleted))
        .filter_map(|f| f.path.rsplit_once('/').map(|(d, _)| d.to_string()))
        .collect();
    // globs are matched against root-relative paths wherever the tool is started
    if !dirs.is_empty() && g.rng.chance(1, 2) {
        let v: Vec<&String> = dirs.iter().collect();
        g.world.cwd = (*g.rng.pick(&v)).clone();
    }
    let (world, plan) = g.finish();
    Scenario {
        prop: String::new(),
        seed,
        runs: vec![(world, plan)],
        tags,
    }
}

/// The scripted / AI blocks reach their validators through a diff: whole files added, one-line
/// edits (only the blocks around the edited line are then evaluated), renamed-and-edited files.
fn diff_mode_for_async_worlds(g: &mut Gen) {
    g.world.stdin = StdinSpec::Piped;
    let n = g.world.files.len();
    // positional globs next to the diff: a file the diff names is examined whether or not a glob
    // matches it, and a file only a glob matches is examined in full
    if g.rng.chance(1, 3) {
        let f = g.rng.below(n);
        let path = g.world.files[f].path.clone();
        let name = path.rsplit('/').next().unwrap().to_string();
        let plain = !name.contains(['[', '{', '\\']);
        let gl = match (g.rng.below(3), name.rsplit_once('.')) {
            (0, Some((_, ext))) => format!("**/*.{ext}"),
            (1, _) if plain => format!("**/{name}"),
            _ => "**/*.none".to_string(),
        };
        g.world.args.globs.push(gl);
    }
    for i in 0..n {
        match g.rng.below(8) {
            0..=4 => g.world.files[i].diff = FileDiff::Added,
            5 | 6 => {
                if let Some(l) = g.pick_insert_line(i) {
                    g.world.files[i].diff = FileDiff::Insert { line: l, renamed_from: None, edit: LineEdit::Inserted, more: vec![] };
                    g.vary_edit(i);
                    g.maybe_rename(i);
                }
            }
            _ => {}
        }
    }
}

// ------------------------------------------------------------------------------------------ C18

fn c18(seed: u64, thorough: bool) -> Scenario {
    let mut rng = Rng::new(mix(seed, "world"));
    let mut g = Gen::new(&mut rng);
    let many = g.rng.chance(1, 4);
    let cfg = GenCfg {
        files: (1, if thorough { 6 } else { 4 }),
        blocks: if many { (3, if thorough { 8 } else { 5 }) } else { (1, 3) },
        p_clean: 50,
        p_sorted: 10,
        p_unique: 10,
        p_pattern: 5,
        p_count: 10,
        p_lua: 85,
        p_ai: if g.rng.chance(1, 4) { 25 } else { 0 },
        p_affects: 0,
        severities: true,
        ..Default::default()
    };
    let mut cfg = cfg;
    let mut tags = Vec::new();
    maybe_big(&mut cfg, g.rng, &mut tags);
    g.gen_files(&cfg);
    g.world.env.lua_mode = match g.rng.below(8) {
        0 => None,
        1 => Some("sandboxed".into()),
        2 => Some("unsafe".into()),
        3 => Some("Safe-ish".into()), // any other value behaves like the default
        _ => Some("safe".into()),
    };
    let fault_cfg = g.rng.chance(1, 2);
    if fault_cfg {
        // one (sometimes two) scripted blocks fail, each in its own script file
        let nf = *g.rng.pick(&[1usize, 1, 1, 1, 2, 2, 3, 4]);
        let mut lua_blocks: Vec<(usize, Vec<usize>)> = Vec::new();
        for (fi, f) in g.world.files.iter().enumerate() {
            let r = render_file(f, false);
            for b in &r.blocks {
                if b.attr("check-lua").is_some() {
                    lua_blocks.push((fi, b.path.clone()));
                }
            }
        }
        for _ in 0..nf {
            if lua_blocks.is_empty() {
                break;
            }
            let (fi, path) = lua_blocks.remove(g.rng.below(lua_blocks.len()));
            let kind = *g.rng.pick(ScriptKind::FAULTS);
            let sp = format!("lua/f{}.lua", g.world.scripts.len());
            g.world.scripts.push(ScriptSpec { path: sp.clone(), kind });
            if g.rng.chance(1, 2) {
                let n = g.rng.range(1, 6) as u32;
                g.plan.lua_load_yields.insert(sp.clone(), n);
            }
            let mut blocks = &mut g.world.files[fi].blocks;
            let mut cur: Option<&mut BlockSpec> = None;
            for (d, &i) in path.iter().enumerate() {
                let b = &mut blocks[i];
                if d + 1 == path.len() {
                    cur = Some(b);
                    break;
                }
                blocks = &mut b.children;
            }
            if let Some(b) = cur {
                b.set_attr("check-lua", &sp);
                b.remove_attr("check-lua-pattern");
            }
            tags.push(format!("fault={kind:?}"));
        }
        tags.push("cfg=fault".into());
    } else {
        tags.push("cfg=fault-free".into());
    }
    if g.rng.chance(1, 3) {
        diff_mode_for_async_worlds(&mut g);
    }
    // script paths are relative to the start directory (level B puts the scripts there)
    if g.rng.chance(1, 3) {
        let dirs: Vec<String> = g
            .world
            .files
            .iter()
            .filter(|f| !matches!(f.diff, FileDiff::Deleted))
            .filter_map(|f| f.path.rsplit_once('/').map(|(d, _)| d.to_string()))
            .collect();
        if !dirs.is_empty() {
            g.world.cwd = g.rng.pick(&dirs).clone();
        }
    }
    let (world, mut plan) = g.finish();
    // completion-order shaping: sometimes make the failing script the slowest or the fastest
    let mut prng = Rng::new(mix(seed, "yields"));
    match prng.below(4) {
        0 => {
            for v in plan.lua_yields.values_mut() {
                *v = 0;
            }
        }
        1 => {
            let n = plan.lua_yields.len() as u32;
            let perm = prng.permutation(n as usize);
            for (i, v) in plan.lua_yields.values_mut().enumerate() {
                *v = perm[i] as u32 * 2;
            }
        }
        _ => {}
    }
    let mut w = world;
    if w.env.lua_mode.is_none() && prng.chance(1, 2) {
        w.env.lua_mode = Some("safe".into());
    }
    Scenario {
        prop: String::new(),
        seed,
        runs: vec![(w, plan)],
        tags,
    }
}

// ------------------------------------------------------------------------------------------ C19

pub fn random_ai_fault(rng: &mut Rng) -> AiReply {
    match rng.below(10) {
        0 => AiReply::Status { code: *rng.pick(&[400u16, 401, 403, 404]), json_body: true },
        1 => AiReply::Status { code: *rng.pick(&[400u16, 401, 404]), json_body: false },
        2 if rng.chance(1, 3) => AiReply::QuotaExceeded,
        2 => AiReply::InvalidJson,
        3 => AiReply::NoChoices,
        4 => AiReply::NullContent,
        5 => AiReply::EmptyBody,
        6 => AiReply::CloseAfter { after: rng.below(12) },
        7 => AiReply::CloseAfter { after: 15 + rng.below(60) },
        8 => AiReply::CloseAfter { after: 90 + rng.below(200) },
        _ => AiReply::ResetAfter { after: rng.below(250) },
    }
}

fn c19(seed: u64, thorough: bool) -> Scenario {
    let mut rng = Rng::new(mix(seed, "world"));
    let mut g = Gen::new(&mut rng);
    let cfg = GenCfg {
        files: (1, if thorough { 5 } else { 3 }),
        blocks: (1, if thorough { 5 } else { 3 }),
        p_clean: 50,
        p_sorted: 8,
        p_unique: 8,
        p_pattern: 5,
        p_count: 8,
        p_lua: if g.rng.chance(1, 4) { 20 } else { 0 },
        p_ai: 85,
        p_affects: 0,
        ..Default::default()
    };
    let mut cfg = cfg;
    let mut tags = Vec::new();
    maybe_big(&mut cfg, g.rng, &mut tags);
    if tags.iter().any(|t| t.starts_with("big=")) {
        cfg.p_ai = 45; // keep the number of simulated HTTP exchanges of a big world in check
    }
    g.gen_files(&cfg);
    let roll = g.rng.below(100);
    let mut env_fault: Option<&str> = None;
    if roll < 45 {
        tags.push("cfg=fault-free".into());
    } else if roll < 85 {
        let toks: Vec<String> = g.world.ai.keys().cloned().collect();
        if !toks.is_empty() {
            let nf = if g.rng.chance(1, 5) { 2 } else { 1 };
            for _ in 0..nf {
                let t = g.rng.pick(&toks).clone();
                let mut f = random_ai_fault(g.rng);
                if g.rng.chance(1, 5) {
                    // retryable statuses: turned away `times` times and then answered (with the
                    // reply the block had, rarely with a fault), or turned away for ever
                    let code = *g.rng.pick(&[429u16, 429, 500, 502, 503]);
                    f = match g.rng.below(8) {
                        0 => AiReply::RetryForever { code },
                        1 => AiReply::RetryThen { code, times: 1, then: Box::new(f) },
                        _ => AiReply::RetryThen {
                            code,
                            times: *g.rng.pick(&[1u32, 1, 1, 2, 3, 5]),
                            then: Box::new(g.world.ai.get(&t).cloned().unwrap_or(AiReply::Text("OK".into()))),
                        },
                    };
                    if let AiReply::RetryThen { then, .. } = &f {
                        if then.uses_retries() {
                            f = AiReply::RetryForever { code };
                        }
                    }
                }
                tags.push(format!("fault={}", f.kind_name()));
                g.world.ai.insert(t, f);
            }
        }
        tags.push("cfg=fault".into());
    } else if roll < 90 {
        env_fault = Some("no-key");
        tags.push("cfg=fault".into());
        tags.push("fault=no_key".into());
    } else if roll < 94 {
        env_fault = Some("empty-key");
        tags.push("cfg=fault".into());
        tags.push("fault=empty_key".into());
    } else {
        env_fault = Some("refuse");
        tags.push("cfg=fault".into());
        tags.push("fault=refused".into());
    }
    if g.rng.chance(1, 4) {
        diff_mode_for_async_worlds(&mut g);
    }
    let (mut world, mut plan) = g.finish();
    match env_fault {
        Some("no-key") => world.env.ai_key = None,
        Some("empty-key") => world.env.ai_key = Some(String::new()),
        Some("refuse") => world.env.ai_refuse_connections = true,
        _ => {}
    }
    // arrival shaping: make the faulty reply first / last now and then
    let mut prng = Rng::new(mix(seed, "latency"));
    let faulty: Vec<String> = world.ai.iter().filter(|(_, r)| r.is_fault()).map(|(t, _)| t.clone()).collect();
    match prng.below(4) {
        0 => {
            for (t, tm) in plan.ai_timing.iter_mut() {
                tm.latency_ms = if faulty.contains(t) { 0 } else { 100 + prng.below(1000) as u64 };
            }
        }
        1 => {
            for (t, tm) in plan.ai_timing.iter_mut() {
                tm.latency_ms = if faulty.contains(t) { 50_000 } else { prng.below(1000) as u64 };
            }
        }
        _ => {}
    }
    Scenario {
        prop: String::new(),
        seed,
        runs: vec![(world, plan)],
        tags,
    }
}

// ------------------------------------------------------------------------------------------ C20

/// Many clean blocks with different regex-valued rules, all sync validators busy at once: whatever
/// the validator threads share (level B runs them truly in parallel) must not leak between rules.
fn contention_world(seed: u64) -> Scenario {
    let mut rng = Rng::new(mix(seed, "contention"));
    let mut g = Gen::new(&mut rng);
    let cfg = GenCfg {
        files: (1, 2),
        blocks: (60, 140),
        max_lines: 3,
        nesting: false,
        p_clean: 100,
        p_sorted: 60,
        p_unique: 60,
        p_pattern: 60,
        p_count: 30,
        p_lua: 0,
        p_ai: 0,
        p_affects: 0,
        severities: false,
        wrap_langs: false,
        rich: false,
        p_custom_ext: 0,
        ..Default::default()
    };
    g.gen_files(&cfg);
    g.world.stdin = StdinSpec::Terminal;
    let (world, plan) = g.finish();
    Scenario {
        prop: String::new(),
        seed,
        runs: vec![(world, plan)],
        tags: vec!["contention".into()],
    }
}

fn c20(seed: u64, thorough: bool) -> Scenario {
    let mut prng = Rng::new(mix(seed, "pick"));
    let sub = *prng.pick(&["C11", "C11", "C13", "C14", "C15", "C18", "C19"]);
    let base = if prng.chance(1, 12) { contention_world(mix(seed, "base")) } else { scenario(sub, mix(seed, "base"), thorough) };
    let (mut world, plan) = base.runs[0].clone();
    // an argument that spells out one file's root-relative path: what it selects must not depend on
    // whether that path also happens to exist relative to the start directory (names with glob
    // metacharacters are patterns wherever the tool is started)
    if prng.chance(1, 4) && !world.files.is_empty() && !world.args.list {
        let special: Vec<&FileSpec> =
            world.files.iter().filter(|f| f.path.contains(['[', '{']) && !f.path.contains('\\')).collect();
        let plain: Vec<&FileSpec> = world.files.iter().filter(|f| !f.path.contains('\\')).collect();
        let pick = if !special.is_empty() && prng.chance(2, 3) {
            Some(special[prng.below(special.len())].path.clone())
        } else if !plain.is_empty() {
            Some(plain[prng.below(plain.len())].path.clone())
        } else {
            None
        };
        if let Some(p) = pick {
            world.args.globs.push(p);
        }
    }
    let k = if thorough { 16 } else { 6 };
    // "the directory inside the repository from which it is started" is nondeterminism too, for
    // rules that reference no external script and globs that do not depend on the cwd
    let mut uses_lua = false;
    for f in &world.files {
        for_each_block(&f.blocks, &mut |b| uses_lua |= b.has("check-lua"));
    }
    let cwd_free = true;
    let _ = uses_lua;
    let mut dirs: Vec<String> = vec![String::new()];
    for f in &world.files {
        if matches!(f.diff, FileDiff::Deleted) {
            continue;
        }
        let comps: Vec<&str> = f.path.split('/').collect();
        for k in 1..comps.len() {
            let d = comps[..k].join("/");
            if !dirs.contains(&d) {
                dirs.push(d);
            }
        }
    }
    let mut runs = vec![(world.clone(), plan.clone())];
    for _ in 1..k {
        let mut w = world.clone();
        if cwd_free {
            w.cwd = prng.pick(&dirs).clone();
        }
        runs.push((w, redraw_plan(&plan, &mut prng)));
    }
    let mut tags = base.tags.clone();
    tags.push(format!("sub={sub}"));
    if cwd_free && dirs.len() > 1 {
        tags.push("cwd-varied".into());
    }
    Scenario {
        prop: String::new(),
        seed,
        runs,
        tags,
    }
}

// ------------------------------------------------------------------------------------------ stats

#[derive(Default, Clone, Debug, serde::Serialize)]
pub struct ScenarioStats {
    pub nontrivial: bool,
    pub signature: String,
    pub probes: BTreeMap<String, u64>,
    pub faults_fired: BTreeMap<String, u64>,
    pub interleaving: String,
    pub virt_ms: u64,
}

fn bump(m: &mut BTreeMap<String, u64>, k: &str) {
    *m.entry(k.to_string()).or_default() += 1;
}

fn fnv_hex(s: &str) -> String {
    let mut h: u64 = 0xcbf2_9ce4_8422_2325;
    for b in s.bytes() {
        h ^= b as u64;
        h = h.wrapping_mul(0x0000_0100_0000_01b3);
    }
    format!("{h:016x}")
}

/// Shape of a world: what makes two worlds "the same case" for distinctness counting.
pub fn world_shape(w: &World) -> String {
    let mut s = String::new();
    for f in &w.files {
        let ext = f.path.rsplit('.').next().unwrap_or("");
        let depth = f.path.matches('/').count();
        s.push_str(&format!("[{ext}{depth}{:?}{}", std::mem::discriminant(&f.diff), f.unwalkable as u8));
        for_each_block(&f.blocks, &mut |b| {
            s.push('(');
            for (k, v) in &b.attrs {
                if k.starts_with("x-") || k == "name" || k == "owner" {
                    continue;
                }
                s.push_str(k);
                if matches!(k.as_str(), "severity" | "keep-sorted" | "keep-sorted-format" | "line-count") {
                    s.push('=');
                    s.push_str(&v.to_ascii_lowercase());
                }
                s.push(';');
            }
            s.push_str(&format!("{}/{}", b.lines.len(), b.children.len()));
            s.push(')');
        });
        s.push(']');
    }
    s.push_str(&format!("{:?}{:?}", w.args.argv().len(), w.stdin));
    s
}

pub fn stats(sc: &Scenario, reports: &[ChildReport]) -> ScenarioStats {
    let mut st = ScenarioStats::default();
    let mut inter = String::new();
    let mut file_orders = BTreeSet::new();
    let mut completion_orders = BTreeSet::new();
    for ((w, p), r) in sc.runs.iter().zip(reports) {
        let rr = &r.rr;
        let gate: Vec<String> = rr["gate_log"]
            .as_array()
            .map(|a| {
                a.iter()
                    .filter_map(|e| e.get("Grant").map(|g| g["unit"].to_string()))
                    .collect()
            })
            .unwrap_or_default();
        let n_sync = rr["n_sync_units"].as_u64().unwrap_or(0);
        let n_async = rr["n_async_validators"].as_u64().unwrap_or(0);
        let lua_order: Vec<String> = rr["lua_calls"]
            .as_array()
            .map(|a| {
                a.iter()
                    .map(|p| p.as_str().unwrap_or("").split('\u{1f}').next().unwrap_or("").to_string())
                    .collect()
            })
            .unwrap_or_default();
        let mut req_order = Vec::new();
        let mut reply_order = Vec::new();
        if let Some(a) = rr["net_log"].as_array() {
            for e in a {
                if let Some(q) = e.get("Request") {
                    req_order.push(q["request"]["token"].as_str().unwrap_or("").to_string());
                }
                if let Some(q) = e.get("Reply") {
                    reply_order.push(q["token"].as_str().unwrap_or("").to_string());
                    let kind = q["kind"].as_str().unwrap_or("");
                    if kind.starts_with("retryable_") {
                        bump(&mut st.faults_fired, &format!("net:{kind}"));
                    }
                }
                if let Some(q) = e.get("FaultFired") {
                    bump(&mut st.faults_fired, &format!("net:{}", q["kind"].as_str().unwrap_or("?")));
                }
                if e.get("Refused").is_some() {
                    bump(&mut st.faults_fired, "net:refused");
                }
            }
        }
        for (t, reply) in &w.ai {
            if reply_order.contains(t) && reply.is_fault() && !matches!(reply, AiReply::CloseAfter { .. } | AiReply::ResetAfter { .. }) {
                bump(&mut st.faults_fired, &format!("net:{}", reply.kind_name()));
            }
            if let AiReply::RetryThen { times, .. } = reply {
                // the retries ended and the block got its answer
                if reply_order.iter().filter(|x| *x == t).count() as u32 > *times {
                    bump(&mut st.probes, "ai_answer_after_retryable_statuses");
                }
            }
            if matches!(reply, AiReply::RetryForever { .. }) && r.expected_kind == "failed" && rr["virt_ms"].as_u64().unwrap_or(0) >= 780_000 {
                bump(&mut st.probes, "ai_retries_gave_up_after_about_15_simulated_minutes");
            }
        }
        let file_order: Vec<String> = rr["file_order"]
            .as_array()
            .map(|a| a.iter().map(|x| x.as_str().unwrap_or("").to_string()).collect())
            .unwrap_or_default();
        file_orders.insert(file_order.join("|"));
        completion_orders.insert(format!("{}#{}#{}", gate.join(","), lua_order.join(","), reply_order.join(",")));
        inter.push_str(&format!(
            "{}#{}#{}#{}#{};",
            gate.join(","),
            lua_order.join(","),
            req_order.join(","),
            reply_order.join(","),
            file_order.join("|")
        ));
        st.virt_ms += rr["virt_ms"].as_u64().unwrap_or(0);
        // generic probes
        if n_async > 0 && gate.first().is_some_and(|u| *u == n_sync.to_string()) && n_sync > 0 {
            bump(&mut st.probes, "async_batch_before_first_sync_unit");
        }
        if n_async > 0 && gate.last().is_some_and(|u| *u == n_sync.to_string()) && n_sync > 0 {
            bump(&mut st.probes, "async_batch_after_all_sync_units");
        }
        if req_order.len() > 1 && req_order != reply_order && reply_order.len() == req_order.len() {
            bump(&mut st.probes, "ai_replies_reordered");
        }
        if rr["late_units"].as_u64().unwrap_or(0) > 0 {
            bump(&mut st.probes, "late_unit");
        }
        if rr["incomplete_units"].as_bool().unwrap_or(false) {
            bump(&mut st.probes, "incomplete_units");
        }
        if rr["anon_threads"].as_u64().unwrap_or(0) > 1 {
            bump(&mut st.probes, "more_than_one_anonymous_thread");
        }
        if p.net.pipe_capacity == 1 && !req_order.is_empty() {
            bump(&mut st.probes, "one_byte_pipe");
        }
        for s in &w.scripts {
            if s.kind.is_fault() && r.expected_kind == "failed" {
                bump(&mut st.faults_fired, &format!("lua:{:?}", s.kind));
            }
        }
        if let Some(a) = rr["fs_log"].as_array() {
            for e in a {
                if e.get("ReadPoisoned").is_some() {
                    bump(&mut st.faults_fired, "fs:poisoned_read");
                }
                if e.get("ReadMissing").is_some() {
                    bump(&mut st.faults_fired, "fs:missing_read");
                }
            }
        }
        bump(&mut st.probes, &format!("expected_{}", r.expected_kind));
        // input dimensions that exist because a change once slipped past without them (§14): how
        // often each one actually occurred
        {
            let mut dims: BTreeSet<&'static str> = BTreeSet::new();
            for f in &w.files {
                if f.bom { dims.insert("dim:file_with_byte_order_mark"); }
                if f.md_nest > 0 { dims.insert("dim:markdown_tags_inside_list_item"); }
                if crate::world::md_ref_applies(f) { dims.insert("dim:markdown_link_reference_comments"); }
                if f.no_final_newline { dims.insert("dim:file_without_final_newline"); }
                if f.spelling != 0 { dims.insert("dim:alternative_tag_spellings"); }
                if f.block_comments != 0 { dims.insert("dim:tags_in_block_comments"); }
                if f.tab_tags { dims.insert("dim:tab_after_tag_name"); }
                if f.lang.is_some() { dims.insert("dim:file_mapped_with_-E"); }
                if f.was_symlink { dims.insert("dim:type_change_two_sections_one_path"); }
                if f.path.contains("..") { dims.insert("dim:consecutive_dots_in_a_name"); }
                if f.path.contains('\\') { dims.insert("dim:backslash_in_a_name"); }
                if f.path.contains(['[', '{']) { dims.insert("dim:glob_metacharacters_in_a_name"); }
                if !f.path.rsplit('/').next().unwrap_or("").contains('.') { dims.insert("dim:file_name_without_a_dot"); }
                if f.path.ends_with(".md") || f.path.ends_with(".markdown") || f.path.ends_with(".html") { dims.insert("dim:markdown_or_html_file"); }
                if render_file(f, false).blocks.iter().any(|b| b.tag_lines > 1) { dims.insert("dim:start_tag_over_several_lines"); }
                if !w.is_terminal() {
                    let edits = f.diff.edits();
                    if edits.len() > 1 { dims.insert("dim:two_edits_in_one_file_section"); }
                    for (_, e) in &edits {
                        match e {
                            LineEdit::Inserted => { dims.insert("dim:edit_line_added"); }
                            LineEdit::Replaced { old } if is_tag_rewrite(old) => { dims.insert("dim:edit_start_tag_rewritten"); }
                            LineEdit::Replaced { .. } => { dims.insert("dim:edit_line_replaced"); }
                            LineEdit::Removed { .. } => { dims.insert("dim:edit_line_removed"); }
                        }
                    }
                    if matches!(&f.diff, FileDiff::Insert { renamed_from: Some(_), .. }) { dims.insert("dim:renamed_and_edited_file"); }
                    if matches!(f.diff, FileDiff::Deleted) { dims.insert("dim:deleted_file_section"); }
                }
            }
            if !w.is_terminal() {
                if w.diff_context > 0 { dims.insert("dim:diff_with_context_lines"); }
                if !w.diff_noise.is_empty() { dims.insert("dim:binary_or_mode_sections"); }
            }
            if w.args.dashdash { dims.insert("dim:double_dash_before_globs"); }
            if w.args.extensions.len() > 1 { dims.insert("dim:several_-E_mappings"); }
            if !w.cwd.is_empty() { dims.insert("dim:started_from_subdirectory"); }
            for d in dims {
                bump(&mut st.probes, d);
            }
        }
        for t in &sc.tags {
            if t.starts_with("big=") {
                bump(&mut st.probes, t);
            }
        }
    }
    st.interleaving = fnv_hex(&inter);
    let (w0, _) = &sc.runs[0];
    let j0 = model::judge(w0);
    let shape = world_shape(w0);
    // ---- per-property non-triviality
    match sc.prop.as_str() {
        "C11" => {
            if let Expected::Report(d) = &j0.expected {
                let mut per_file: BTreeMap<&str, BTreeSet<&str>> = BTreeMap::new();
                for x in d {
                    per_file.entry(&x.file).or_default().insert(&x.code);
                }
                st.nontrivial = per_file.values().any(|c| c.len() >= 2);
                let errs = d.iter().filter(|x| x.severity == 1).count();
                if errs > 0 && errs < d.len() {
                    bump(&mut st.probes, "error_among_non_errors");
                }
                if !d.is_empty() && errs == 0 {
                    bump(&mut st.probes, "diagnostics_but_all_non_error");
                }
                if d.is_empty() {
                    bump(&mut st.probes, "no_diagnostics");
                }
                for (_, codes) in per_file {
                    let sync = codes.iter().any(|c| !c.starts_with("check-"));
                    if sync && codes.contains("check-lua") && codes.contains("check-ai") {
                        bump(&mut st.probes, "same_file_from_sync_lua_ai");
                    }
                }
            } else if let Expected::Listing(l) = &j0.expected {
                st.nontrivial = l.len() >= 2;
                bump(&mut st.probes, "list");
            }
            st.signature = fnv_hex(&format!("{shape}{}", st.interleaving));
        }
        "C13" => {
            st.nontrivial = matches!(j0.expected, Expected::Failed(_))
                || sc.tags.iter().any(|t| t.starts_with("variant=control"));
            let kind = sc.tags.iter().find(|t| t.starts_with("kind=")).cloned().unwrap_or_default();
            let variant = sc.tags.iter().find(|t| t.starts_with("variant=")).cloned().unwrap_or_default();
            bump(&mut st.probes, &kind);
            bump(&mut st.probes, &variant);
            if matches!(j0.expected, Expected::Failed(_)) {
                bump(&mut st.faults_fired, &format!("malformed:{}", kind.trim_start_matches("kind=")));
            }
            // position of the carrier among the blocks, bucketed
            let total = block_count(w0);
            st.signature = fnv_hex(&format!("{kind}{variant}{}{}{}", total.min(6), w0.files.len(), st.interleaving));
        }
        "C14" => {
            let flags = sc.tags.iter().find(|t| t.starts_with("flags=")).cloned().unwrap_or_default();
            bump(&mut st.probes, &flags);
            // sole block of some validator
            let mut count: BTreeMap<&str, usize> = BTreeMap::new();
            for s in &j0.selected {
                for v in model::VALIDATORS {
                    if s.layout.attr(v).is_some() {
                        *count.entry(v).or_default() += 1;
                    }
                }
            }
            let sole = count.values().any(|&c| c == 1);
            if sole {
                bump(&mut st.probes, "validator_with_a_single_block");
            }
            st.nontrivial = !j0.selected.is_empty()
                && (matches!(j0.expected, Expected::Rejected(_)) || j0.enabled.len() < model::VALIDATORS.len());
            if file_orders.len() > 1 {
                bump(&mut st.probes, "replicates_saw_different_file_orders");
            }
            let mut en: Vec<&String> = j0.enabled.iter().collect();
            en.sort();
            st.signature = fnv_hex(&format!("{shape}{en:?}{flags}"));
        }
        "C15" => {
            let inscope = j0.scope.len();
            let poisoned = j0.poisoned.len();
            st.nontrivial = poisoned >= 1 && inscope >= 1;
            // the poison is *placed* on every out-of-scope path; on a correct tree it is never
            // *read* (fs:poisoned_read stays 0 and would accompany a violation)
            *st.faults_fired.entry("fs:poison_placed_on_out_of_scope_path".into()).or_default() += poisoned as u64;
            for f in &w0.files {
                if f.path.starts_with("b/") {
                    bump(&mut st.probes, "top_level_dir_named_b");
                }
                if f.path.starts_with("a/") {
                    bump(&mut st.probes, "top_level_dir_named_a");
                }
                if f.path.contains(' ') && !matches!(f.diff, FileDiff::None) {
                    bump(&mut st.probes, "diff_path_with_space");
                }
                let in_diff = !w0.is_terminal() && matches!(f.diff, FileDiff::Added | FileDiff::Insert { .. });
                let ignored = w0.args.ignore.iter().any(|g| model::glob_match(g, &f.path));
                let globbed = w0.args.globs.iter().any(|g| model::glob_match(g, &f.path));
                if in_diff && ignored {
                    bump(&mut st.probes, "ignore_wins_over_diff");
                }
                if in_diff && !globbed && !w0.args.globs.is_empty() && !ignored {
                    bump(&mut st.probes, "diff_only_file_bypasses_globs");
                }
                let ancestors: Vec<String> = {
                    let comps: Vec<&str> = f.path.split('/').collect();
                    (1..comps.len()).map(|k| comps[..k].join("/")).collect()
                };
                for gl in &w0.args.ignore {
                    if !model::glob_match(gl, &f.path) && ancestors.iter().any(|a| model::glob_match(gl, a)) {
                        bump(&mut st.probes, "ignore_glob_matches_only_a_parent_directory");
                    }
                }
                for gl in &w0.args.globs {
                    if !model::glob_match(gl, &f.path) && ancestors.iter().any(|a| model::glob_match(gl, a)) {
                        bump(&mut st.probes, "positional_glob_matches_only_a_parent_directory");
                    }
                }
                if matches!(f.diff, FileDiff::Deleted) && !w0.is_terminal() {
                    bump(&mut st.probes, "deleted_file_section");
                }
                if f.unwalkable && in_diff && !ignored {
                    bump(&mut st.probes, "hidden_file_named_in_diff");
                }
            }
            st.signature = fnv_hex(&format!(
                "{shape}{:?}{:?}{}",
                w0.args.globs.iter().map(|g| glob_shape(g)).collect::<Vec<_>>(),
                w0.args.ignore.iter().map(|g| glob_shape(g)).collect::<Vec<_>>(),
                w0.cwd.is_empty()
            ));
        }
        "C18" => {
            let n_lua = j0.selected.iter().filter(|s| s.layout.attr("check-lua").is_some()).count();
            st.nontrivial = n_lua >= 2 || (n_lua >= 1 && matches!(j0.expected, Expected::Failed(_)));
            let faults: Vec<&String> = sc.tags.iter().filter(|t| t.starts_with("fault=")).collect();
            if faults.len() >= 2 {
                bump(&mut st.probes, "two_failing_scripts");
            }
            // where does the failing block complete relative to its siblings?
            if matches!(j0.expected, Expected::Failed(_)) && n_lua >= 2 {
                let (_, p) = &sc.runs[0];
                let failing: Vec<&str> = j0
                    .selected
                    .iter()
                    .filter(|s| {
                        s.layout.attr("check-lua").is_some_and(|sp| {
                            w0.scripts.iter().any(|x| x.path == sp && x.kind.is_fault())
                        })
                    })
                    .filter_map(|s| s.layout.attr("x-tok"))
                    .collect();
                let y = |t: &str| p.lua_yields.get(t).copied().unwrap_or(0);
                if let Some(f) = failing.first() {
                    let fy = y(f);
                    let others: Vec<u32> = p.lua_yields.iter().filter(|(t, _)| !failing.contains(&t.as_str())).map(|(_, v)| *v).collect();
                    if !others.is_empty() && others.iter().all(|o| *o > fy) {
                        bump(&mut st.probes, "failing_script_has_fewest_yields");
                    }
                    if !others.is_empty() && others.iter().all(|o| *o < fy) {
                        bump(&mut st.probes, "failing_script_has_most_yields");
                    }
                }
            }
            for s in &j0.selected {
                if s.layout.attr("check-lua-pattern") == Some("zzz-never-matche[s]") {
                    bump(&mut st.probes, "pattern_without_match_passes_empty_content");
                }
            }
            st.signature = fnv_hex(&format!("{}{:?}{}", n_lua.min(12), faults, st.interleaving));
        }
        "C19" => {
            let n_ai = j0.selected.iter().filter(|s| s.layout.attr("check-ai").is_some()).count();
            st.nontrivial = n_ai >= 1 && (n_ai >= 2 || matches!(j0.expected, Expected::Failed(_)));
            let faults: Vec<&String> = sc.tags.iter().filter(|t| t.starts_with("fault=")).collect();
            let rr = &reports[0].rr;
            let mut reply_order = Vec::new();
            if let Some(a) = rr["net_log"].as_array() {
                for e in a {
                    if let Some(q) = e.get("Reply") {
                        reply_order.push((q["token"].as_str().unwrap_or("").to_string(), q["kind"].as_str().unwrap_or("").to_string()));
                    }
                    if let Some(q) = e.get("FaultFired") {
                        let after = q["after"].as_u64().unwrap_or(0);
                        let cls = if after < 15 { "status_line" } else if after < 90 { "headers" } else { "body" };
                        bump(&mut st.probes, &format!("cut_inside_{cls}"));
                    }
                }
            }
            if let Some(pos) = reply_order.iter().position(|(_, k)| k != "text") {
                if pos == 0 && reply_order.len() > 1 {
                    bump(&mut st.probes, "faulty_reply_first");
                }
                if pos + 1 == reply_order.len() && reply_order.len() > 1 {
                    bump(&mut st.probes, "faulty_reply_last");
                }
            }
            if st.virt_ms >= 3_600_000 {
                bump(&mut st.probes, "hour_long_stall_then_reply");
            }
            st.signature = fnv_hex(&format!("{}{:?}{}", n_ai.min(12), faults, st.interleaving));
        }
        "C20" => {
            st.nontrivial = file_orders.len() >= 2 || completion_orders.len() >= 2;
            if file_orders.len() >= 2 {
                bump(&mut st.probes, "replicates_saw_different_file_orders");
            }
            if completion_orders.len() >= 2 {
                bump(&mut st.probes, "replicates_saw_different_completion_orders");
            }
            let sub = sc.tags.iter().find(|t| t.starts_with("sub=")).cloned().unwrap_or_default();
            bump(&mut st.probes, &sub);
            if sc.tags.iter().any(|t| t == "cwd-varied") {
                bump(&mut st.probes, "replicates_started_from_different_directories");
            }
            st.signature = fnv_hex(&format!("{shape}{sub}"));
        }
        _ => {}
    }
    st
}

fn glob_shape(g: &str) -> &'static str {
    if g == "**" {
        "all"
    } else if g.starts_with("**/*.") {
        "**/*.ext"
    } else if g.starts_with("**/") {
        "**/name"
    } else if g.ends_with("/**") {
        "dir/**"
    } else if g.contains("/**/*.") {
        "dir/**/*.ext"
    } else if g.starts_with("*.") {
        "*.ext"
    } else {
        "exact"
    }
}
