//! Simulated network: an in-memory byte pipe with short reads/writes and injectable close/reset
//! (`SimPipe`), and a hand-written HTTP/1.1 chat-completions endpoint (`SimEndpoint`) that runs
//! as tasks on the same (current-thread, paused-clock) Tokio runtime as the client.
//!
//! Everything above TCP — blockwatch's OpenAI client, async-openai, reqwest, hyper — is real
//! code; this module replaces TCP/DNS/TLS and the remote server only.

use crate::model::find_ai_token;
use crate::world::AiReply;
use serde::{Deserialize, Serialize};
use std::collections::{BTreeMap, VecDeque};
use std::io;
use std::pin::Pin;
use std::sync::{Arc, Mutex};
use std::task::{Context, Poll, Waker};
use tokio::io::{AsyncRead, AsyncReadExt, AsyncWrite, AsyncWriteExt, ReadBuf};

// ---------------------------------------------------------------------------------------------
// SimPipe

#[derive(Default)]
struct Half {
    buf: VecDeque<u8>,
    /// Writer end was dropped / shut down: reader sees EOF after draining.
    closed: bool,
    /// Reader gets ECONNRESET after draining.
    reset: bool,
    /// Reader end was dropped: writer gets EPIPE.
    reader_gone: bool,
    read_waker: Option<Waker>,
    write_waker: Option<Waker>,
}

pub struct PipeEnd {
    rx: Arc<Mutex<Half>>,
    tx: Arc<Mutex<Half>>,
    capacity: usize,
    max_read: usize,
    max_write: usize,
}

/// Creates a connected pair (client end, server end).
pub fn sim_pipe(capacity: usize, max_read: usize, max_write: usize) -> (PipeEnd, PipeEnd) {
    let a = Arc::new(Mutex::new(Half::default()));
    let b = Arc::new(Mutex::new(Half::default()));
    let cap = capacity.max(1);
    (
        PipeEnd {
            rx: a.clone(),
            tx: b.clone(),
            capacity: cap,
            max_read: max_read.max(1),
            max_write: max_write.max(1),
        },
        PipeEnd {
            rx: b,
            tx: a,
            capacity: cap,
            max_read: max_read.max(1),
            max_write: max_write.max(1),
        },
    )
}

impl PipeEnd {
    /// Makes the peer's next read (after draining what was written) fail with ECONNRESET.
    pub fn reset_peer(&self) {
        let mut h = self.tx.lock().unwrap();
        h.reset = true;
        if let Some(w) = h.read_waker.take() {
            w.wake();
        }
    }
}

impl Drop for PipeEnd {
    fn drop(&mut self) {
        {
            let mut h = self.tx.lock().unwrap();
            h.closed = true;
            if let Some(w) = h.read_waker.take() {
                w.wake();
            }
        }
        let mut h = self.rx.lock().unwrap();
        h.reader_gone = true;
        if let Some(w) = h.write_waker.take() {
            w.wake();
        }
    }
}

impl AsyncRead for PipeEnd {
    fn poll_read(
        self: Pin<&mut Self>,
        cx: &mut Context<'_>,
        buf: &mut ReadBuf<'_>,
    ) -> Poll<io::Result<()>> {
        let mut h = self.rx.lock().unwrap();
        if !h.buf.is_empty() {
            let n = h.buf.len().min(buf.remaining()).min(self.max_read);
            for _ in 0..n {
                let b = h.buf.pop_front().unwrap();
                buf.put_slice(&[b]);
            }
            if let Some(w) = h.write_waker.take() {
                w.wake();
            }
            return Poll::Ready(Ok(()));
        }
        if h.reset {
            return Poll::Ready(Err(io::Error::new(
                io::ErrorKind::ConnectionReset,
                "connection reset by peer (simulated)",
            )));
        }
        if h.closed {
            return Poll::Ready(Ok(()));
        }
        h.read_waker = Some(cx.waker().clone());
        Poll::Pending
    }
}

impl AsyncWrite for PipeEnd {
    fn poll_write(
        self: Pin<&mut Self>,
        cx: &mut Context<'_>,
        data: &[u8],
    ) -> Poll<io::Result<usize>> {
        let mut h = self.tx.lock().unwrap();
        if h.reader_gone {
            return Poll::Ready(Err(io::Error::new(
                io::ErrorKind::BrokenPipe,
                "broken pipe (simulated)",
            )));
        }
        let room = self.capacity.saturating_sub(h.buf.len());
        if room == 0 {
            h.write_waker = Some(cx.waker().clone());
            return Poll::Pending;
        }
        let n = room.min(data.len()).min(self.max_write);
        h.buf.extend(&data[..n]);
        if let Some(w) = h.read_waker.take() {
            w.wake();
        }
        Poll::Ready(Ok(n))
    }

    fn poll_flush(self: Pin<&mut Self>, _cx: &mut Context<'_>) -> Poll<io::Result<()>> {
        Poll::Ready(Ok(()))
    }

    fn poll_shutdown(self: Pin<&mut Self>, _cx: &mut Context<'_>) -> Poll<io::Result<()>> {
        let mut h = self.tx.lock().unwrap();
        h.closed = true;
        if let Some(w) = h.read_waker.take() {
            w.wake();
        }
        Poll::Ready(Ok(()))
    }
}

// ---------------------------------------------------------------------------------------------
// SimEndpoint

#[derive(Serialize, Deserialize, Clone, Debug, PartialEq, Default)]
pub struct AiTiming {
    pub latency_ms: u64,
    /// Response written in chunks of this many bytes (0 = a single write).
    pub chunk: usize,
    pub chunk_gap_ms: u64,
}

#[derive(Serialize, Deserialize, Clone, Debug, PartialEq)]
pub struct NetPlan {
    pub pipe_capacity: usize,
    pub max_read: usize,
    pub max_write: usize,
}

impl Default for NetPlan {
    fn default() -> Self {
        NetPlan {
            pipe_capacity: 4096,
            max_read: 4096,
            max_write: 4096,
        }
    }
}

#[derive(Serialize, Clone, Debug, PartialEq)]
pub enum NetEvent {
    Connect { conn: usize, at_ms: u64 },
    Refused { at_ms: u64 },
    Request { conn: usize, at_ms: u64, request: Box<RecordedRequest> },
    BadRequest { conn: usize, why: String },
    Reply { conn: usize, at_ms: u64, token: String, kind: String, bytes: usize },
    FaultFired { conn: usize, token: String, kind: String, after: usize },
    ClientGone { conn: usize, token: String },
}

#[derive(Serialize, Clone, Debug, PartialEq, Default)]
pub struct RecordedRequest {
    pub method: String,
    pub path: String,
    pub authorization: String,
    pub content_type: String,
    pub model: String,
    pub system: String,
    pub user: String,
    pub token: String,
    pub n_messages: usize,
}

pub struct SimEndpoint {
    pub replies: BTreeMap<String, AiReply>,
    pub timing: BTreeMap<String, AiTiming>,
    pub net: NetPlan,
    pub refuse: bool,
    pub keep_alive: bool,
    pub log: Mutex<Vec<NetEvent>>,
    t0: Mutex<Option<tokio::time::Instant>>,
    conns: Mutex<usize>,
    /// Requests seen so far per prompt token (drives `RetryThen`).
    seen: Mutex<BTreeMap<String, u32>>,
}

fn completion_body(model: &str, content: serde_json::Value) -> String {
    serde_json::json!({
        "id": "chatcmpl-sim",
        "object": "chat.completion",
        "created": 1_700_000_000u64,
        "model": model,
        "choices": [{
            "index": 0,
            "message": {"role": "assistant", "content": content},
            "finish_reason": "stop"
        }]
    })
    .to_string()
}

/// A status the client library retries: 429 with a rate-limit error object, or a 5xx (JSON or
/// plain body, alternating: the library does not parse server-error bodies).
pub fn retryable_response(code: u16, nth: u32, keep_alive: bool) -> Vec<u8> {
    let reason = match code {
        429 => "Too Many Requests",
        500 => "Internal Server Error",
        502 => "Bad Gateway",
        503 => "Service Unavailable",
        _ => "Error",
    };
    if code == 429 || nth % 2 == 0 {
        let ty = if code == 429 { "rate_limit_exceeded" } else { "server_error" };
        http_response(
            code,
            reason,
            "application/json",
            &serde_json::json!({"error": {"message": format!("simulated {code}, try again"), "type": ty, "param": null, "code": null}}).to_string(),
            keep_alive,
        )
    } else {
        http_response(code, reason, "text/plain", &format!("{reason} (simulated)"), keep_alive)
    }
}

fn http_response(status: u16, reason: &str, ctype: &str, body: &str, keep_alive: bool) -> Vec<u8> {
    let mut s = format!(
        "HTTP/1.1 {status} {reason}\r\ncontent-type: {ctype}\r\ncontent-length: {}\r\n",
        body.len()
    );
    if !keep_alive {
        s.push_str("connection: close\r\n");
    }
    s.push_str("\r\n");
    s.push_str(body);
    s.into_bytes()
}

impl SimEndpoint {
    pub fn new(
        replies: BTreeMap<String, AiReply>,
        timing: BTreeMap<String, AiTiming>,
        net: NetPlan,
        refuse: bool,
        keep_alive: bool,
    ) -> Arc<Self> {
        Arc::new(SimEndpoint {
            replies,
            timing,
            net,
            refuse,
            keep_alive,
            log: Mutex::new(Vec::new()),
            t0: Mutex::new(None),
            conns: Mutex::new(0),
            seen: Mutex::new(BTreeMap::new()),
        })
    }

    fn now_ms(&self) -> u64 {
        let mut t0 = self.t0.lock().unwrap();
        let now = tokio::time::Instant::now();
        let base = *t0.get_or_insert(now);
        now.duration_since(base).as_millis() as u64
    }

    fn push(&self, e: NetEvent) {
        self.log.lock().unwrap().push(e);
    }

    /// Called by the transport seam for every connection attempt. Runs inside the runtime.
    pub async fn connect(self: Arc<Self>) -> io::Result<PipeEnd> {
        let at = self.now_ms();
        if self.refuse {
            self.push(NetEvent::Refused { at_ms: at });
            return Err(io::Error::new(
                io::ErrorKind::ConnectionRefused,
                "connection refused (simulated)",
            ));
        }
        let conn = {
            let mut c = self.conns.lock().unwrap();
            *c += 1;
            *c
        };
        self.push(NetEvent::Connect { conn, at_ms: at });
        let (client, server) = sim_pipe(self.net.pipe_capacity, self.net.max_read, self.net.max_write);
        let me = self.clone();
        tokio::spawn(async move { me.serve(server, conn).await });
        Ok(client)
    }

    async fn read_request(io: &mut PipeEnd) -> Result<Option<(String, Vec<(String, String)>, Vec<u8>)>, String> {
        let mut buf: Vec<u8> = Vec::new();
        let mut tmp = [0u8; 1024];
        let head_end = loop {
            if let Some(p) = buf.windows(4).position(|w| w == b"\r\n\r\n") {
                break p + 4;
            }
            let n = io.read(&mut tmp).await.map_err(|e| e.to_string())?;
            if n == 0 {
                return if buf.is_empty() { Ok(None) } else { Err("EOF inside request head".into()) };
            }
            buf.extend_from_slice(&tmp[..n]);
            if buf.len() > 1 << 20 {
                return Err("request head too large".into());
            }
        };
        let head = String::from_utf8_lossy(&buf[..head_end]).to_string();
        let mut lines = head.split("\r\n");
        let request_line = lines.next().unwrap_or("").to_string();
        let mut headers = Vec::new();
        for l in lines {
            if let Some((k, v)) = l.split_once(':') {
                headers.push((k.trim().to_ascii_lowercase(), v.trim().to_string()));
            }
        }
        let mut body: Vec<u8> = buf[head_end..].to_vec();
        let chunked = headers
            .iter()
            .any(|(k, v)| k == "transfer-encoding" && v.to_ascii_lowercase().contains("chunked"));
        if chunked {
            return Err("chunked request bodies are not expected from this client".into());
        }
        let len: usize = headers
            .iter()
            .find(|(k, _)| k == "content-length")
            .and_then(|(_, v)| v.parse().ok())
            .unwrap_or(0);
        while body.len() < len {
            let n = io.read(&mut tmp).await.map_err(|e| e.to_string())?;
            if n == 0 {
                return Err("EOF inside request body".into());
            }
            body.extend_from_slice(&tmp[..n]);
        }
        if body.len() > len {
            return Err("bytes after the request body (pipelining is not expected)".into());
        }
        Ok(Some((request_line, headers, body)))
    }

    async fn serve(self: Arc<Self>, mut io: PipeEnd, conn: usize) {
        loop {
            let (request_line, headers, body) = match Self::read_request(&mut io).await {
                Ok(Some(r)) => r,
                Ok(None) => return,
                Err(why) => {
                    self.push(NetEvent::BadRequest { conn, why });
                    return;
                }
            };
            let mut rr = RecordedRequest::default();
            let mut parts = request_line.split(' ');
            rr.method = parts.next().unwrap_or("").to_string();
            rr.path = parts.next().unwrap_or("").to_string();
            for (k, v) in &headers {
                if k == "authorization" {
                    rr.authorization = v.clone();
                }
                if k == "content-type" {
                    rr.content_type = v.clone();
                }
            }
            match serde_json::from_slice::<serde_json::Value>(&body) {
                Ok(v) => {
                    rr.model = v.get("model").and_then(|m| m.as_str()).unwrap_or("").to_string();
                    if let Some(msgs) = v.get("messages").and_then(|m| m.as_array()) {
                        rr.n_messages = msgs.len();
                        for m in msgs {
                            let role = m.get("role").and_then(|r| r.as_str()).unwrap_or("");
                            let content = m.get("content").and_then(|c| c.as_str()).unwrap_or("");
                            if role == "user" {
                                rr.user = content.to_string();
                            } else if role == "system" {
                                rr.system = content.to_string();
                            }
                        }
                    }
                }
                Err(e) => {
                    self.push(NetEvent::BadRequest {
                        conn,
                        why: format!("request body is not JSON: {e}"),
                    });
                }
            }
            rr.token = find_ai_token(&rr.user).unwrap_or_default();
            let token = rr.token.clone();
            let model = rr.model.clone();
            self.push(NetEvent::Request {
                conn,
                at_ms: self.now_ms(),
                request: Box::new(rr),
            });

            let timing = self.timing.get(&token).cloned().unwrap_or_default();
            if timing.latency_ms > 0 {
                tokio::time::sleep(std::time::Duration::from_millis(timing.latency_ms)).await;
            }
            let nth = {
                let mut seen = self.seen.lock().unwrap();
                let n = seen.entry(token.clone()).or_insert(0);
                *n += 1;
                *n
            };
            let planned = self
                .replies
                .get(&token)
                .cloned()
                .unwrap_or(AiReply::Text("OK".into()));
            // retryable statuses: what this particular request gets
            let (reply, retryable) = match planned {
                AiReply::RetryThen { code, times, then } => {
                    if nth <= times {
                        (AiReply::Text(String::new()), Some(code))
                    } else {
                        (*then, None)
                    }
                }
                AiReply::RetryForever { code } => (AiReply::Text(String::new()), Some(code)),
                other => (other, None),
            };
            let ka = self.keep_alive;
            let good = |text: &str| {
                http_response(
                    200,
                    "OK",
                    "application/json",
                    &completion_body(&model, serde_json::Value::String(text.to_string())),
                    ka,
                )
            };
            let (bytes, cut, reset): (Vec<u8>, Option<usize>, bool) = match &reply {
                _ if retryable.is_some() => {
                    let code = retryable.unwrap();
                    (retryable_response(code, nth, ka), None, false)
                }
                AiReply::QuotaExceeded => (
                    http_response(
                        429,
                        "Too Many Requests",
                        "application/json",
                        &serde_json::json!({"error": {"message": "simulated: quota exceeded", "type": "insufficient_quota", "param": null, "code": "insufficient_quota"}}).to_string(),
                        ka,
                    ),
                    None,
                    false,
                ),
                AiReply::RetryThen { .. } | AiReply::RetryForever { .. } => unreachable!(),
                AiReply::Text(t) => (good(t), None, false),
                AiReply::Status { code, json_body } => {
                    let reason = match code {
                        400 => "Bad Request",
                        401 => "Unauthorized",
                        403 => "Forbidden",
                        404 => "Not Found",
                        _ => "Error",
                    };
                    let (ct, body) = if *json_body {
                        (
                            "application/json",
                            serde_json::json!({"error": {"message": format!("simulated {code}"), "type": "invalid_request_error", "param": null, "code": null}}).to_string(),
                        )
                    } else {
                        ("text/plain", format!("{reason} (simulated)"))
                    };
                    (http_response(*code, reason, ct, &body, ka), None, false)
                }
                AiReply::InvalidJson => (
                    http_response(200, "OK", "application/json", "{\"choices\": [ this is not json", ka),
                    None,
                    false,
                ),
                AiReply::NoChoices => (
                    http_response(
                        200,
                        "OK",
                        "application/json",
                        &serde_json::json!({"id":"chatcmpl-sim","object":"chat.completion","created":1_700_000_000u64,"model":model,"choices":[]}).to_string(),
                        ka,
                    ),
                    None,
                    false,
                ),
                AiReply::NullContent => (
                    http_response(200, "OK", "application/json", &completion_body(&model, serde_json::Value::Null), ka),
                    None,
                    false,
                ),
                AiReply::EmptyBody => (http_response(200, "OK", "application/json", "", ka), None, false),
                AiReply::CloseAfter { after } => {
                    let b = good("OK");
                    let cut = (*after).min(b.len() - 1);
                    (b, Some(cut), false)
                }
                AiReply::ResetAfter { after } => {
                    let b = good("OK");
                    let cut = (*after).min(b.len() - 1);
                    (b, Some(cut), true)
                }
            };
            let total = cut.unwrap_or(bytes.len());
            let chunk = if timing.chunk == 0 { total.max(1) } else { timing.chunk };
            let mut written = 0;
            let mut client_gone = false;
            while written < total {
                let end = (written + chunk).min(total);
                if io.write_all(&bytes[written..end]).await.is_err() {
                    client_gone = true;
                    break;
                }
                written = end;
                if written < total && timing.chunk_gap_ms > 0 {
                    tokio::time::sleep(std::time::Duration::from_millis(timing.chunk_gap_ms)).await;
                }
            }
            if client_gone {
                self.push(NetEvent::ClientGone { conn, token });
                return;
            }
            self.push(NetEvent::Reply {
                conn,
                at_ms: self.now_ms(),
                token: token.clone(),
                kind: match retryable {
                    Some(code) => format!("retryable_{code}"),
                    None => reply.kind_name().to_string(),
                },
                bytes: written,
            });
            if let Some(c) = cut {
                self.push(NetEvent::FaultFired {
                    conn,
                    token,
                    kind: reply.kind_name().to_string(),
                    after: c,
                });
                if reset {
                    io.reset_peer();
                }
                return; // dropping `io` closes the connection
            }
            if !ka {
                let _ = io.shutdown().await;
                return;
            }
        }
    }
}
