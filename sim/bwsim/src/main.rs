use std::time::Instant;
fn main() {
    let t = Instant::now();
    for _ in 0..20 {
        let p = blockwatch::language_parsers::language_parsers().unwrap();
        std::hint::black_box(&p);
    }
    println!("parsers x20: {:?}", t.elapsed());
    let _ = reqwest::verif_transport::set_connect_hook;
    let _ = blockwatch::verif_hooks::set_runtime_factory;
}
