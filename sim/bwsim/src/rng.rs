//! The harness's own PRNG (xoshiro256**), independent of the `getrandom` stream handed to
//! blockwatch, so harness bookkeeping neither perturbs nor is perturbed by the system under test.

#[derive(Clone, Debug)]
pub struct Rng {
    s: [u64; 4],
}

pub fn splitmix64(state: &mut u64) -> u64 {
    *state = state.wrapping_add(0x9e37_79b9_7f4a_7c15);
    let mut z = *state;
    z = (z ^ (z >> 30)).wrapping_mul(0xbf58_476d_1ce4_e5b9);
    z = (z ^ (z >> 27)).wrapping_mul(0x94d0_49bb_1331_11eb);
    z ^ (z >> 31)
}

fn fnv(label: &str) -> u64 {
    let mut h: u64 = 0xcbf2_9ce4_8422_2325;
    for b in label.bytes() {
        h ^= b as u64;
        h = h.wrapping_mul(0x0000_0100_0000_01b3);
    }
    h
}

/// Derives an independent sub-seed: `mix(seed, "world")`, `mix(seed, "hash")`, ...
pub fn mix(seed: u64, label: &str) -> u64 {
    let mut s = seed ^ fnv(label).rotate_left(17);
    let a = splitmix64(&mut s);
    let b = splitmix64(&mut s);
    a ^ b.rotate_left(31)
}

pub fn mix_n(seed: u64, n: u64) -> u64 {
    let mut s = seed ^ n.wrapping_mul(0xd6e8_feb8_6659_fd93);
    let a = splitmix64(&mut s);
    splitmix64(&mut s) ^ a.rotate_left(29)
}

impl Rng {
    pub fn new(seed: u64) -> Self {
        let mut sm = seed;
        let s = [
            splitmix64(&mut sm),
            splitmix64(&mut sm),
            splitmix64(&mut sm),
            splitmix64(&mut sm),
        ];
        Rng { s }
    }

    pub fn next_u64(&mut self) -> u64 {
        let result = self.s[1].wrapping_mul(5).rotate_left(7).wrapping_mul(9);
        let t = self.s[1] << 17;
        self.s[2] ^= self.s[0];
        self.s[3] ^= self.s[1];
        self.s[1] ^= self.s[2];
        self.s[0] ^= self.s[3];
        self.s[2] ^= t;
        self.s[3] = self.s[3].rotate_left(45);
        result
    }

    /// Uniform in `0..n` (n > 0).
    pub fn below(&mut self, n: usize) -> usize {
        debug_assert!(n > 0);
        (self.next_u64() % (n as u64)) as usize
    }

    /// Uniform in `lo..=hi`.
    pub fn range(&mut self, lo: usize, hi: usize) -> usize {
        lo + self.below(hi - lo + 1)
    }

    /// True with probability `num/den`.
    pub fn chance(&mut self, num: usize, den: usize) -> bool {
        self.below(den) < num
    }

    pub fn pick<'a, T>(&mut self, items: &'a [T]) -> &'a T {
        &items[self.below(items.len())]
    }

    pub fn shuffle<T>(&mut self, items: &mut [T]) {
        for i in (1..items.len()).rev() {
            let j = self.below(i + 1);
            items.swap(i, j);
        }
    }

    pub fn permutation(&mut self, n: usize) -> Vec<usize> {
        let mut v: Vec<usize> = (0..n).collect();
        self.shuffle(&mut v);
        v
    }
}
