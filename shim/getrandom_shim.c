/* LD_PRELOAD shim for level B: makes the hash keys std draws through getrandom(2) a function of
 * VERIF_HASH_SEED, so HashMap iteration orders of the shipped binary are chosen by the simulator.
 * Without VERIF_HASH_SEED the real syscall is used. */
#define _GNU_SOURCE
#include <stdint.h>
#include <stdlib.h>
#include <string.h>
#include <sys/syscall.h>
#include <unistd.h>

static uint64_t splitmix(uint64_t *s) {
  uint64_t z = (*s += 0x9e3779b97f4a7c15ULL);
  z = (z ^ (z >> 30)) * 0xbf58476d1ce4e5b9ULL;
  z = (z ^ (z >> 27)) * 0x94d049bb133111ebULL;
  return z ^ (z >> 31);
}

static __thread uint64_t call_idx = 0;

ssize_t getrandom(void *buf, size_t len, unsigned int flags) {
  const char *seed = getenv("VERIF_HASH_SEED");
  if (!seed) return syscall(SYS_getrandom, buf, len, flags);
  /* Keyed by (seed, per-thread call index) only: every thread draws the same stream, which keeps
   * the keys independent of thread creation order. */
  uint64_t s = strtoull(seed, NULL, 10) * 0x2545f4914f6cdd1dULL + (++call_idx);
  unsigned char *p = buf;
  size_t i = 0;
  while (i < len) {
    uint64_t v = splitmix(&s);
    size_t n = len - i < 8 ? len - i : 8;
    memcpy(p + i, &v, n);
    i += n;
  }
  return (ssize_t)len;
}
