//! The gate: owns the schedule of blockwatch's validator units (DESIGN §2.3).
//!
//! Every sync validator and the async batch is one *unit*. Real threads are parked here and
//! released exactly one at a time in the order drawn from the plan; a unit signals completion
//! through a drop guard. Who runs is therefore the simulator's choice, not the kernel's.

use crate::hashseed;
use async_trait::async_trait;
use blockwatch::validators::{ValidationContext, ValidatorAsync, ValidatorSync, Violation};
use std::collections::{BTreeSet, HashMap};
use std::path::PathBuf;
use std::sync::{Arc, Condvar, Mutex};
use std::time::{Duration, Instant};

#[derive(Clone, Debug, PartialEq, serde::Serialize)]
pub enum GateEvent {
    Grant { unit: usize },
    /// Result summary of a unit: sorted diagnostic codes with counts, or the error text.
    SyncDone { unit: usize, ok: bool, summary: String },
    Leave { unit: usize },
    LateUnit { wanted: usize, granted: usize },
}

struct GateState {
    order: Vec<usize>,
    pos: usize,
    running: Option<usize>,
    arrived: BTreeSet<usize>,
    finished: BTreeSet<usize>,
    late_units: u32,
    log: Vec<GateEvent>,
}

pub struct Gate {
    st: Mutex<GateState>,
    cv: Condvar,
    late_after: Duration,
}

impl Gate {
    pub fn new(order: Vec<usize>) -> Arc<Gate> {
        Arc::new(Gate {
            st: Mutex::new(GateState {
                order,
                pos: 0,
                running: None,
                arrived: BTreeSet::new(),
                finished: BTreeSet::new(),
                late_units: 0,
                log: Vec::new(),
            }),
            cv: Condvar::new(),
            // generous: on today's code every unit arrives within microseconds; the fallback only
            // matters after a refactor (or under extreme machine overload)
            late_after: Duration::from_millis(1000),
        })
    }

    pub fn enter(&self, unit: usize) {
        let mut st = self.st.lock().unwrap();
        st.arrived.insert(unit);
        self.cv.notify_all();
        let started = Instant::now();
        loop {
            if st.running.is_none() && st.pos < st.order.len() && st.order[st.pos] == unit {
                st.running = Some(unit);
                st.log.push(GateEvent::Grant { unit });
                break;
            }
            if st.pos >= st.order.len() {
                // a unit the order does not know (never on today's code): let it run
                break;
            }
            let (g, timeout) = self
                .cv
                .wait_timeout(st, Duration::from_millis(20))
                .unwrap();
            st = g;
            if timeout.timed_out()
                && st.running.is_none()
                && st.pos < st.order.len()
                && !st.arrived.contains(&st.order[st.pos])
                && started.elapsed() >= self.late_after
            {
                // Robustness rule: the wanted unit has not shown up. Grant the best-ranked
                // arrived one instead; costs exact replay for this run, never a verdict.
                let pos = st.pos;
                if let Some(k) = (pos..st.order.len())
                    .find(|&k| st.arrived.contains(&st.order[k]) && !st.finished.contains(&st.order[k]))
                {
                    let wanted = st.order[pos];
                    let granted = st.order.remove(k);
                    st.order.insert(pos, granted);
                    st.late_units += 1;
                    st.log.push(GateEvent::LateUnit { wanted, granted });
                    self.cv.notify_all();
                }
            }
        }
        drop(st);
        hashseed::set_label(hashseed::LABEL_UNIT_BASE + unit as u64);
    }

    pub fn leave(&self, unit: usize) {
        let mut st = self.st.lock().unwrap();
        if st.running == Some(unit) {
            st.running = None;
            st.finished.insert(unit);
            st.pos += 1;
            st.log.push(GateEvent::Leave { unit });
        }
        self.cv.notify_all();
    }

    /// After `run()` has returned: lets every remaining unit run (in plan order) and waits until
    /// all `n_units` have finished, so that the logs are cut at a deterministic point. Returns
    /// false if some unit never showed up within `timeout` (possible only after a refactor that
    /// stops spawning units eagerly; recorded, never a verdict).
    pub fn wait_all(&self, n_units: usize, timeout: Duration) -> bool {
        let deadline = Instant::now() + timeout;
        let mut st = self.st.lock().unwrap();
        while st.finished.len() < n_units {
            let now = Instant::now();
            if now >= deadline {
                return false;
            }
            let (g, _) = self.cv.wait_timeout(st, (deadline - now).min(Duration::from_millis(20))).unwrap();
            st = g;
        }
        true
    }

    pub fn note(&self, e: GateEvent) {
        self.st.lock().unwrap().log.push(e);
    }

    pub fn take_log(&self) -> (Vec<GateEvent>, u32) {
        let mut st = self.st.lock().unwrap();
        (std::mem::take(&mut st.log), st.late_units)
    }
}

struct LeaveGuard<'a> {
    gate: &'a Gate,
    unit: usize,
}
impl Drop for LeaveGuard<'_> {
    fn drop(&mut self) {
        self.gate.leave(self.unit);
    }
}

pub struct GatedSync {
    pub inner: Box<dyn ValidatorSync>,
    pub unit: usize,
    pub gate: Arc<Gate>,
}

pub fn summarize(r: &anyhow::Result<HashMap<PathBuf, Vec<Violation>>>) -> (bool, String) {
    match r {
        Ok(m) => {
            let mut codes: Vec<String> = Vec::new();
            for (p, vs) in m {
                for v in vs {
                    let d = serde_json::to_value(v.as_simple_diagnostic()).unwrap_or_default();
                    codes.push(format!(
                        "{}:{}:{}",
                        p.display(),
                        d.get("code").and_then(|c| c.as_str()).unwrap_or("?"),
                        d.pointer("/range/start/line").and_then(|l| l.as_u64()).unwrap_or(0)
                    ));
                }
            }
            codes.sort();
            (true, codes.join(","))
        }
        Err(e) => (false, format!("{e:#}")),
    }
}

impl ValidatorSync for GatedSync {
    fn validate(
        &self,
        context: Arc<ValidationContext>,
    ) -> anyhow::Result<HashMap<PathBuf, Vec<Violation>>> {
        self.gate.enter(self.unit);
        let _g = LeaveGuard {
            gate: &self.gate,
            unit: self.unit,
        };
        let r = self.inner.validate(context);
        let (ok, summary) = summarize(&r);
        self.gate.note(GateEvent::SyncDone {
            unit: self.unit,
            ok,
            summary,
        });
        r
    }
}

/// Shared by every async validator of the batch; the batch leaves the gate when the last one
/// (i.e. the last task future holding a validator) is dropped.
pub struct AsyncBatchGuard {
    pub gate: Arc<Gate>,
    pub unit: usize,
}
impl Drop for AsyncBatchGuard {
    fn drop(&mut self) {
        self.gate.leave(self.unit);
    }
}

pub struct GatedAsync {
    pub inner: Box<dyn ValidatorAsync>,
    pub batch: Arc<AsyncBatchGuard>,
}

#[async_trait]
impl ValidatorAsync for GatedAsync {
    async fn validate(
        &self,
        context: Arc<ValidationContext>,
    ) -> anyhow::Result<HashMap<PathBuf, Vec<Violation>>> {
        self.inner.validate(context).await
    }
}
