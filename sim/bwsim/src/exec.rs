//! Level A: one in-process deterministic run of the real pipeline.
//!
//! `execute(world, plan)` is a pure function of its arguments: the same pair gives the same
//! `RunResult`, byte for byte. It is meant to be called in a freshly forked child process (see
//! `worker.rs`): environment variables, the `getrandom` stream, the reqwest connect hook and the
//! runtime factory are process-global.

use crate::gate::{AsyncBatchGuard, Gate, GateEvent, GatedAsync, GatedSync};
use crate::hashseed;
use crate::lua;
use crate::model::{self, ExpListed, Judgement};
use crate::net::{AiTiming, NetEvent, NetPlan, SimEndpoint};
use crate::rng::Rng;
use crate::simfs::{FsEvent, SimEntry, SimFs};
use crate::world::*;
use blockwatch::{blocks, diff_parser, flags, language_parsers, validators};
use clap::Parser;
use serde::{Deserialize, Serialize};
use std::collections::{BTreeMap, HashMap};
use std::path::Path;
use std::sync::{Arc, Mutex};

/// Everything nondeterministic about a run. Same world + same plan = same run.
#[derive(Serialize, Deserialize, Clone, Debug, PartialEq, Default)]
pub struct Plan {
    /// Keys of every RandomState (HashMap/HashSet iteration orders).
    pub hash_seed: u64,
    /// Order in which validator units are released (0 = detection order).
    pub unit_seed: u64,
    /// Directory-walk order (0 = file order of the world).
    pub walk_seed: u64,
    /// Order of the file sections in the diff (0 = file order of the world).
    pub diff_seed: u64,
    /// Scheduling points (`coroutine.yield()`) before a Lua block's script returns, by token.
    #[serde(default)]
    pub lua_yields: BTreeMap<String, u32>,
    /// Scheduling points at the top level of a script file (after its definitions), by script
    /// path: every block task that loads the script yields this many times before it looks up
    /// `validate`.
    #[serde(default)]
    pub lua_load_yields: BTreeMap<String, u32>,
    /// Busy-loop length (x1000 iterations) per Lua token; level B's stand-in for yields.
    #[serde(default)]
    pub lua_busy: BTreeMap<String, u32>,
    /// Endpoint latency and response chunking per AI token.
    #[serde(default)]
    pub ai_timing: BTreeMap<String, AiTiming>,
    #[serde(default)]
    pub net: NetPlan,
    /// Level B knobs (ignored by level A).
    #[serde(default)]
    pub workers: usize,
    #[serde(default)]
    pub cores: usize,
    #[serde(default)]
    pub create_seed: u64,
}

pub fn perm_from_seed(seed: u64, n: usize) -> Vec<usize> {
    if seed == 0 {
        (0..n).collect()
    } else {
        Rng::new(seed).permutation(n)
    }
}

#[derive(Serialize, Deserialize, Clone, Debug, PartialEq, Eq, PartialOrd, Ord)]
pub struct ObsDiag {
    pub file: String,
    pub code: String,
    /// `range.start.line` as reported.
    pub line: usize,
    pub severity: u8,
    pub token: String,
    /// range/code/message/severity all present and well-typed.
    pub well_formed: bool,
}

#[derive(Serialize, Deserialize, Clone, Debug, PartialEq)]
pub enum Obs {
    Rejected(String),
    Failed(String),
    Report(Vec<ObsDiag>),
    Listing(Vec<ExpListed>),
    Panicked(String),
    /// Level B / watchdog only.
    Hang,
    /// Level B only: the process died from a signal or exited with an unexpected status.
    Crashed(String),
}

impl Obs {
    pub fn kind(&self) -> &'static str {
        match self {
            Obs::Rejected(_) => "rejected",
            Obs::Failed(_) => "failed",
            Obs::Report(_) => "report",
            Obs::Listing(_) => "listing",
            Obs::Panicked(_) => "panicked",
            Obs::Hang => "hang",
            Obs::Crashed(_) => "crashed",
        }
    }
}

#[derive(Serialize, Clone, Debug, Default)]
pub struct RunResult {
    pub obs: Option<Obs>,
    pub fs_log: Vec<FsEvent>,
    pub net_log: Vec<NetEvent>,
    pub gate_log: Vec<GateEvent>,
    /// Payloads recorded by good scripts (only in `safe`/`unsafe` Lua mode).
    pub lua_calls: Vec<String>,
    /// Panic messages seen by the panic hook on any thread.
    pub panics: Vec<String>,
    pub n_sync_units: usize,
    pub n_async_validators: usize,
    pub late_units: u32,
    /// Some unit never reached the gate after run() returned (see Gate::wait_all).
    pub incomplete_units: bool,
    pub getrandom_calls: u64,
    pub anon_threads: u64,
    /// Virtual milliseconds on the paused clock when the async batch ended.
    pub virt_ms: u64,
    /// File iteration order of the validation context as seen by `list`-style serialisation.
    pub file_order: Vec<String>,
}

pub fn diag_from_json(file: &str, d: &serde_json::Value) -> ObsDiag {
    let code = d.get("code").and_then(|c| c.as_str()).unwrap_or("").to_string();
    let line = d
        .pointer("/range/start/line")
        .and_then(|l| l.as_u64())
        .unwrap_or(0) as usize;
    let severity = d.get("severity").and_then(|s| s.as_u64()).unwrap_or(0) as u8;
    let data = d.get("data");
    let s = |p: &str| {
        data.and_then(|x| x.get(p))
            .map(|v| match v {
                serde_json::Value::String(s) => s.clone(),
                other => other.to_string(),
            })
            .unwrap_or_default()
    };
    let token = match code.as_str() {
        "check-lua" => s("lua_error"),
        "check-ai" => s("ai_message"),
        "affects" => format!("{}:{}", s("affected_block_file_path"), s("affected_block_name")),
        "line-count" => format!("{} {} {}", s("actual"), s("op"), s("expected")),
        _ => String::new(),
    };
    let well_formed = d.get("message").is_some_and(|m| m.is_string())
        && d.get("code").is_some_and(|m| m.is_string())
        && (1..=4).contains(&severity)
        && d.pointer("/range/start/line").is_some_and(|v| v.is_u64())
        && d.pointer("/range/start/character").is_some_and(|v| v.is_u64())
        && d.pointer("/range/end/line").is_some_and(|v| v.is_u64())
        && d.pointer("/range/end/character").is_some_and(|v| v.is_u64());
    ObsDiag {
        file: file.to_string(),
        code,
        line,
        severity,
        token,
        well_formed,
    }
}

pub fn listing_from_json(report: &serde_json::Value) -> Vec<ExpListed> {
    let mut out = Vec::new();
    if let Some(obj) = report.as_object() {
        for (file, blocks) in obj {
            for b in blocks.as_array().map(|a| a.as_slice()).unwrap_or(&[]) {
                let mut attrs = BTreeMap::new();
                if let Some(a) = b.get("attributes").and_then(|a| a.as_object()) {
                    for (k, v) in a {
                        attrs.insert(k.clone(), v.as_str().unwrap_or("").to_string());
                    }
                }
                // how an *unnamed* block is labelled is not part of any property
                let name = if attrs.contains_key("name") {
                    b.get("name").and_then(|n| n.as_str()).unwrap_or("").to_string()
                } else {
                    String::new()
                };
                out.push(ExpListed {
                    file: file.clone(),
                    name,
                    line: b.get("line").and_then(|n| n.as_u64()).unwrap_or(0) as usize,
                    attrs,
                    is_content_modified: b
                        .get("is_content_modified")
                        .and_then(|n| n.as_bool())
                        .unwrap_or(false),
                });
            }
        }
    }
    out.sort();
    out
}

/// Error texts may embed heap addresses (Lua prints `table: 0x7f…`); they are not part of any
/// oracle and would break byte-identical replay of the event log.
pub fn redact_pointers(s: &str) -> String {
    let b = s.as_bytes();
    let mut out = String::with_capacity(s.len());
    let mut i = 0;
    while i < b.len() {
        if b[i] == b'0' && i + 1 < b.len() && b[i + 1] == b'x' {
            let mut j = i + 2;
            while j < b.len() && b[j].is_ascii_hexdigit() {
                j += 1;
            }
            if j - (i + 2) >= 6 {
                out.push_str("0xPTR");
                i = j;
                continue;
            }
        }
        let ch_len = s[i..].chars().next().map(|c| c.len_utf8()).unwrap_or(1);
        out.push_str(&s[i..i + ch_len]);
        i += ch_len;
    }
    out
}

pub const SIM_HOST: &str = "http://sim.invalid";

/// Sets the BLOCKWATCH_* environment of this process from the world (level A) or returns it for
/// a child (level B).
pub fn env_for(world: &World, base_url: &str) -> Vec<(String, Option<String>)> {
    let e = &world.env;
    vec![
        ("BLOCKWATCH_AI_API_KEY".into(), e.ai_key.clone()),
        ("BLOCKWATCH_AI_MODEL".into(), e.ai_model.clone()),
        (
            "BLOCKWATCH_AI_API_URL".into(),
            Some(format!("{base_url}{}", e.ai_base_path)),
        ),
        ("BLOCKWATCH_LUA_MODE".into(), e.lua_mode.clone()),
        ("OPENAI_API_KEY".into(), e.ambient_openai_env.then(|| "sk-some-other-tools-key".to_string())),
        ("OPENAI_ADMIN_KEY".into(), e.ambient_openai_env.then(|| "sk-admin-of-another-tool".to_string())),
        ("OPENAI_BASE_URL".into(), e.ambient_openai_env.then(|| "http://other-tool.invalid/v9".to_string())),
        ("OPENAI_ORG_ID".into(), e.ambient_openai_env.then(|| "org-elsewhere".to_string())),
        ("OPENAI_PROJECT_ID".into(), e.ambient_openai_env.then(|| "proj-elsewhere".to_string())),
    ]
}

static PANICS: Mutex<Vec<String>> = Mutex::new(Vec::new());

fn install_panic_hook() {
    std::panic::set_hook(Box::new(|info| {
        // a panic raised by the harness's own code is a harness error, never a verdict
        let own = info
            .location()
            .is_some_and(|l| l.file().contains("bwsim/src/") || l.file().contains("vendor/reqwest"));
        let msg = if own { format!("HARNESS: {info}") } else { format!("{info}") };
        PANICS.lock().unwrap_or_else(|e| e.into_inner()).push(msg);
    }));
}

/// Runs the world under the plan. `scratch` must be an empty directory; it becomes the cwd.
pub fn execute(world: &World, plan: &Plan, judgement: &Judgement, scratch: &Path) -> RunResult {
    let mut rr = RunResult::default();
    install_panic_hook();
    std::env::set_current_dir(scratch).expect("chdir scratch");

    // ---- scripts (real files: check-lua reads them with std::fs, there is no seam)
    for s in &world.scripts {
        let ly = plan.lua_load_yields.get(&s.path).copied().unwrap_or(0);
        lua::write_script(scratch, s, &plan.lua_yields, &plan.lua_busy, ly).expect("write script");
    }
    let _ = std::fs::create_dir_all(scratch.join("lua"));

    // ---- environment
    for (k, v) in env_for(world, SIM_HOST) {
        // SAFETY: the process is single-threaded at this point (fresh fork, before the sim thread).
        unsafe {
            match v {
                Some(v) => std::env::set_var(&k, v),
                None => std::env::remove_var(&k),
            }
        }
    }
    unsafe { std::env::remove_var("BLOCKWATCH_TERMINAL_MODE") };

    // ---- storage
    let rendered = &judgement.rendered;
    let mut entries = BTreeMap::new();
    let mut walkable: Vec<String> = Vec::new();
    for (f, r) in world.files.iter().zip(rendered) {
        if matches!(f.diff, FileDiff::Deleted) {
            continue;
        }
        entries.insert(
            f.path.clone(),
            SimEntry {
                text: r.text.clone(),
                poisoned: judgement.poisoned.contains(&f.path),
            },
        );
        if !f.unwalkable {
            walkable.push(f.path.clone());
        }
    }
    let walk_perm = perm_from_seed(plan.walk_seed, walkable.len());
    let walk_order: Vec<String> = walk_perm.iter().map(|&i| walkable[i].clone()).collect();
    let diff_files: Vec<usize> = (0..world.files.len())
        .filter(|&i| !matches!(world.files[i].diff, FileDiff::None))
        .collect();
    let diff_perm = perm_from_seed(plan.diff_seed, diff_files.len());
    let diff_order: Vec<usize> = diff_perm.iter().map(|&i| diff_files[i]).collect();
    let stdin_text = world.stdin_text(rendered, &diff_order).map(|t| world.with_noise(t, plan.diff_seed));

    // ---- network
    let endpoint = SimEndpoint::new(
        world.ai.clone(),
        plan.ai_timing.clone(),
        plan.net.clone(),
        world.env.ai_refuse_connections,
        world.env.ai_keep_alive,
    );
    {
        let ep = endpoint.clone();
        reqwest::verif_transport::set_connect_hook(Some(Arc::new(move |_uri| {
            let ep = ep.clone();
            Box::pin(async move {
                let io = ep.connect().await?;
                Ok(Box::new(io) as reqwest::verif_transport::BoxIo)
            })
        })));
    }

    // ---- the run itself, on a fresh thread so that its hash keys come from the plan
    hashseed::activate(plan.hash_seed);
    // jitter of the client library's retry intervals (vendored backoff seam)
    backoff::verif_seed_jitter(crate::rng::mix(plan.unit_seed, "retry-jitter") | 1);
    let argv = world.args.argv();
    let unit_seed = plan.unit_seed;
    let shared: Arc<Mutex<Option<Arc<Gate>>>> = Arc::new(Mutex::new(None));
    let shared2 = shared.clone();
    let virt = Arc::new(Mutex::new(0u64));
    let virt2 = virt.clone();
    struct Out {
        obs: Obs,
        fs_log: Vec<FsEvent>,
        n_sync: usize,
        n_async: usize,
        file_order: Vec<String>,
        incomplete: bool,
    }
    let handle = std::thread::Builder::new()
        .name("sim-main".into())
        .spawn(move || -> Out {
            hashseed::set_label(hashseed::LABEL_MAIN);
            let fs = SimFs {
                entries,
                walk_order,
                log: Default::default(),
            };
            let mut n_sync = 0;
            let mut n_async = 0;
            let mut file_order = Vec::new();
            let mut incomplete = false;
            let obs = (|| -> Obs {
                let mut full = vec!["blockwatch".to_string()];
                full.extend(argv);
                let args = match flags::Args::try_parse_from(full) {
                    Ok(a) => a,
                    Err(e) => return Obs::Rejected(format!("{}", e.kind())),
                };
                let languages = match language_parsers::language_parsers() {
                    Ok(l) => l,
                    Err(e) => return Obs::Failed(format!("language parsers: {e:#}")),
                };
                let supported = languages.keys().collect();
                if let Err(e) = args.validate(&supported) {
                    return Obs::Rejected(format!("{e:#}"));
                }
                let mut glob_set = match args.globs() {
                    Ok(g) => g,
                    Err(e) => return Obs::Rejected(format!("{e:#}")),
                };
                let is_terminal = stdin_text.is_none();
                if glob_set.is_empty() && is_terminal {
                    glob_set = globset::GlobSet::new([globset::Glob::new("**").unwrap()]).unwrap();
                }
                let should_scan = !glob_set.is_empty();
                let ignored = match args.ignored_globs() {
                    Ok(g) => g,
                    Err(e) => return Obs::Rejected(format!("{e:#}")),
                };
                let checker = blocks::PathCheckerImpl::new(glob_set, ignored);
                let modified = match &stdin_text {
                    Some(t) => match diff_parser::line_changes_from_diff(t) {
                        Ok(m) => m,
                        Err(e) => return Obs::Failed(format!("diff: {e:#}")),
                    },
                    None => HashMap::new(),
                };
                let parsed = match blocks::parse_blocks(
                    modified,
                    should_scan,
                    &fs,
                    &checker,
                    languages,
                    args.extensions(),
                ) {
                    Ok(b) => b,
                    Err(e) => return Obs::Failed(format!("parse: {e:#}")),
                };
                let context = validators::ValidationContext::new(parsed);
                let report = context.to_serializable_report();
                file_order = report.keys().map(|p| p.display().to_string()).collect();
                if matches!(args.command, Some(flags::SubCommand::List { .. })) {
                    let v = serde_json::to_value(&report).unwrap_or_default();
                    return Obs::Listing(listing_from_json(&v));
                }
                let (sync_v, async_v) = match validators::detect_validators(
                    &context,
                    validators::DETECTOR_FACTORIES,
                    &args.disabled_validators(),
                    &args.enabled_validators(),
                ) {
                    Ok(v) => v,
                    Err(e) => return Obs::Failed(format!("detect: {e:#}")),
                };
                n_sync = sync_v.len();
                n_async = async_v.len();
                let n_units = n_sync + usize::from(n_async > 0);
                let gate = Gate::new(perm_from_seed(unit_seed, n_units));
                *shared2.lock().unwrap() = Some(gate.clone());
                let sync_v: Vec<Box<dyn validators::ValidatorSync>> = sync_v
                    .into_iter()
                    .enumerate()
                    .map(|(i, v)| {
                        Box::new(GatedSync {
                            inner: v,
                            unit: i,
                            gate: gate.clone(),
                        }) as Box<dyn validators::ValidatorSync>
                    })
                    .collect();
                let async_unit = n_sync;
                let batch = Arc::new(AsyncBatchGuard {
                    gate: gate.clone(),
                    unit: async_unit,
                });
                let async_v: Vec<Box<dyn validators::ValidatorAsync>> = async_v
                    .into_iter()
                    .map(|v| {
                        Box::new(GatedAsync {
                            inner: v,
                            batch: batch.clone(),
                        }) as Box<dyn validators::ValidatorAsync>
                    })
                    .collect();
                drop(batch);
                {
                    let gate = gate.clone();
                    blockwatch::verif_hooks::set_runtime_factory(Some(Box::new(move || {
                        gate.enter(async_unit);
                        hashseed::set_label(hashseed::LABEL_ASYNC);
                        tokio::runtime::Builder::new_current_thread()
                            .enable_all()
                            .start_paused(true)
                            .build()
                    })));
                }
                let result = validators::run(Arc::new(context), sync_v, async_v);
                // run() may return before every unit has run (early return on the first Err);
                // let the rest finish so the logs are cut at a deterministic point.
                incomplete = !gate.wait_all(n_units, std::time::Duration::from_millis(1500));
                match result {
                    Err(e) => Obs::Failed(redact_pointers(&format!("{e:#}"))),
                    Ok(map) => {
                        let mut diags = Vec::new();
                        for (path, vs) in &map {
                            for v in vs {
                                let d = serde_json::to_value(v.as_simple_diagnostic())
                                    .unwrap_or_default();
                                diags.push(diag_from_json(&path.display().to_string(), &d));
                            }
                        }
                        diags.sort();
                        Obs::Report(diags)
                    }
                }
            })();
            let _ = virt2;
            Out {
                obs,
                fs_log: fs.log.into_inner(),
                n_sync,
                n_async,
                file_order,
                incomplete,
            }
        })
        .expect("spawn sim thread");
    let joined = handle.join();
    rr.getrandom_calls = hashseed::calls_total();
    rr.anon_threads = hashseed::anon_threads();
    hashseed::deactivate();
    match joined {
        Ok(out) => {
            rr.obs = Some(out.obs);
            rr.fs_log = out.fs_log;
            rr.n_sync_units = out.n_sync;
            rr.n_async_validators = out.n_async;
            rr.file_order = out.file_order;
            rr.incomplete_units = out.incomplete;
        }
        Err(p) => {
            let msg = p
                .downcast_ref::<String>()
                .cloned()
                .or_else(|| p.downcast_ref::<&str>().map(|s| s.to_string()))
                .unwrap_or_else(|| "panic".into());
            rr.obs = Some(Obs::Panicked(msg));
        }
    }
    if let Some(g) = shared.lock().unwrap().as_ref() {
        let (log, late) = g.take_log();
        rr.gate_log = log;
        rr.late_units = late;
    }
    rr.net_log = endpoint.log.lock().unwrap().clone();
    rr.virt_ms = rr
        .net_log
        .iter()
        .map(|e| match e {
            NetEvent::Connect { at_ms, .. }
            | NetEvent::Refused { at_ms }
            | NetEvent::Request { at_ms, .. }
            | NetEvent::Reply { at_ms, .. } => *at_ms,
            _ => 0,
        })
        .max()
        .unwrap_or(0);
    let _ = virt;
    rr.lua_calls = lua::read_call_log(scratch);
    rr.panics = PANICS.lock().unwrap_or_else(|e| e.into_inner()).clone();
    let _ = model::VALIDATORS;
    rr
}
