//! Process isolation: every level-A run executes in a freshly forked child.
//!
//! The parent (one per worker) is single-threaded and does nothing but fork, wait and collect,
//! so every child starts from the same process state whatever ran before: environment
//! variables, the getrandom stream, the connect hook, the runtime factory, static counters
//! inside dependencies and straggler threads all die with the child. A watchdog kills a child
//! that does not report within the wall-clock budget (reported as a hang).

use crate::exec::{self, Obs, Plan, RunResult};
use crate::model::{self, Judgement};
use crate::oracle::{self, Mismatch, OracleCfg};
use crate::world::World;
use serde::{Deserialize, Serialize};
use std::io::Read;
use std::os::fd::FromRawFd;
use std::path::PathBuf;
use std::sync::atomic::{AtomicU64, Ordering};
use std::time::{Duration, Instant};

#[derive(Serialize, Deserialize, Clone, Debug)]
pub struct ChildReport {
    /// RunResult as JSON (kept as a value so the parent does not need Deserialize everywhere).
    pub rr: serde_json::Value,
    pub mismatches: Vec<Mismatch>,
    pub obs_kind: String,
    pub expected_kind: String,
    /// Problems of the harness itself (never a property verdict; the check exits 2).
    #[serde(default)]
    pub harness_notes: Vec<String>,
}

static COUNTER: AtomicU64 = AtomicU64::new(0);

pub fn scratch_root() -> PathBuf {
    let base = std::env::var("VERIF_SCRATCH").unwrap_or_else(|_| "/dev/shm".to_string());
    PathBuf::from(base).join(format!("bwsim-{}", std::process::id()))
}

pub fn cleanup_scratch() {
    let _ = std::fs::remove_dir_all(scratch_root());
}

pub const WATCHDOG: Duration = Duration::from_secs(10);
/// Multiplier of both watchdogs (level A: 10 s, level B: 20 s). A run that outlives its watchdog is
/// given this many times longer before it counts as a hang: on an overloaded machine a run can be
/// starved for seconds, a real hang never ends.
pub static WATCHDOG_SCALE: std::sync::atomic::AtomicU64 = std::sync::atomic::AtomicU64::new(1);

pub fn watchdog_scale() -> u32 {
    WATCHDOG_SCALE.load(Ordering::SeqCst).max(1) as u32
}

/// Runs (world, plan) at level A in a forked child and judges it against the model.
pub fn run_forked(world: &World, plan: &Plan) -> ChildReport {
    let n = COUNTER.fetch_add(1, Ordering::SeqCst);
    let scratch = scratch_root().join(format!("a{n}"));
    std::fs::create_dir_all(&scratch).expect("create scratch");
    let mut fds = [0i32; 2];
    // SAFETY: plain POSIX calls; the parent is single-threaded.
    unsafe {
        if libc::pipe(fds.as_mut_ptr()) != 0 {
            panic!("pipe failed");
        }
        let pid = libc::fork();
        if pid < 0 {
            panic!("fork failed");
        }
        if pid == 0 {
            libc::close(fds[0]);
            let report = child_main(world, plan, &scratch);
            let bytes = serde_json::to_vec(&report).unwrap_or_default();
            let mut off = 0;
            while off < bytes.len() {
                let w = libc::write(fds[1], bytes[off..].as_ptr() as *const _, bytes.len() - off);
                if w <= 0 {
                    break;
                }
                off += w as usize;
            }
            libc::close(fds[1]);
            libc::_exit(0);
        }
        libc::close(fds[1]);
        let mut file = std::fs::File::from_raw_fd(fds[0]);
        let started = Instant::now();
        let mut buf = Vec::new();
        let mut hung = false;
        loop {
            let mut pfd = libc::pollfd {
                fd: fds[0],
                events: libc::POLLIN,
                revents: 0,
            };
            let left = (WATCHDOG * watchdog_scale()).saturating_sub(started.elapsed());
            if left.is_zero() {
                hung = true;
                break;
            }
            let r = libc::poll(&mut pfd, 1, left.as_millis().min(1000) as i32);
            if r > 0 {
                let mut tmp = [0u8; 65536];
                match file.read(&mut tmp) {
                    Ok(0) => break,
                    Ok(k) => buf.extend_from_slice(&tmp[..k]),
                    Err(_) => break,
                }
            }
        }
        if hung {
            libc::kill(pid, libc::SIGKILL);
        }
        let mut status = 0i32;
        libc::waitpid(pid, &mut status, 0);
        drop(file);
        let _ = std::fs::remove_dir_all(&scratch);
        let j = model::judge(world);
        if hung {
            return synthetic(Obs::Hang, world, &j);
        }
        match serde_json::from_slice::<ChildReport>(&buf) {
            Ok(r) => r,
            Err(_) => {
                let why = if libc::WIFSIGNALED(status) {
                    format!("child killed by signal {}", libc::WTERMSIG(status))
                } else {
                    format!("child exited with status {} without a report", libc::WEXITSTATUS(status))
                };
                synthetic(Obs::Crashed(why), world, &j)
            }
        }
    }
}

fn synthetic(obs: Obs, world: &World, j: &Judgement) -> ChildReport {
    let rr = RunResult {
        obs: Some(obs.clone()),
        ..Default::default()
    };
    let mismatches = oracle::check(world, j, &rr, &OracleCfg { level_b: false });
    ChildReport {
        rr: serde_json::to_value(&rr).unwrap_or_default(),
        mismatches,
        obs_kind: obs.kind().to_string(),
        expected_kind: j.expected.kind().to_string(),
        harness_notes: vec![],
    }
}

fn child_main(world: &World, plan: &Plan, scratch: &std::path::Path) -> ChildReport {
    let j = model::judge(world);
    let rr = exec::execute(world, plan, &j, scratch);
    let mismatches = oracle::check(world, &j, &rr, &OracleCfg { level_b: false });
    ChildReport {
        obs_kind: rr.obs.as_ref().map(|o| o.kind()).unwrap_or("none").to_string(),
        expected_kind: j.expected.kind().to_string(),
        rr: serde_json::to_value(&rr).unwrap_or_default(),
        mismatches,
        harness_notes: vec![],
    }
}
