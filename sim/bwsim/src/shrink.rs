//! Minimisation of a failing (world, plan) before it is reported, and the signature used to
//! classify a minimised failure against /verif/known_findings.json.
//!
//! Greedy delta debugging on the explicit world: a step is kept only while the *same clause*
//! still fails when the candidate is re-executed, and only candidates inside the modelled input
//! language (`model::invalid_reason`) are tried.

use crate::exec::Plan;
use crate::model;
use crate::net::NetPlan;
use crate::worker::ChildReport;
use crate::world::*;

type Runner<'a> = &'a dyn Fn(&World, &Plan) -> ChildReport;

fn block_paths(blocks: &[BlockSpec], prefix: &mut Vec<usize>, out: &mut Vec<Vec<usize>>) {
    for (i, b) in blocks.iter().enumerate() {
        prefix.push(i);
        out.push(prefix.clone());
        block_paths(&b.children, prefix, out);
        prefix.pop();
    }
}

fn block_at<'a>(blocks: &'a mut Vec<BlockSpec>, path: &[usize]) -> Option<&'a mut BlockSpec> {
    let (first, rest) = path.split_first()?;
    let b = blocks.get_mut(*first)?;
    if rest.is_empty() {
        Some(b)
    } else {
        block_at(&mut b.children, rest)
    }
}

fn remove_block(blocks: &mut Vec<BlockSpec>, path: &[usize]) -> bool {
    let Some((last, parent)) = path.split_last() else {
        return false;
    };
    if parent.is_empty() {
        if *last < blocks.len() {
            blocks.remove(*last);
            return true;
        }
        return false;
    }
    match block_at(blocks, parent) {
        Some(p) if *last < p.children.len() => {
            p.children.remove(*last);
            true
        }
        _ => false,
    }
}

/// All one-step simplifications of (world, plan), most aggressive first.
fn candidates(w: &World, p: &Plan) -> Vec<(World, Plan)> {
    let mut out: Vec<(World, Plan)> = Vec::new();
    // drop whole files
    for i in 0..w.files.len() {
        let mut c = w.clone();
        c.files.remove(i);
        out.push((c, p.clone()));
    }
    // drop blocks
    for fi in 0..w.files.len() {
        let mut paths = Vec::new();
        block_paths(&w.files[fi].blocks, &mut Vec::new(), &mut paths);
        for path in paths {
            let mut c = w.clone();
            // an Insert diff refers to a rendered line; drop it together with structure changes
            if remove_block(&mut c.files[fi].blocks, &path) {
                if matches!(c.files[fi].diff, FileDiff::Insert { .. }) {
                    let mut c2 = c.clone();
                    c2.files[fi].diff = FileDiff::Added;
                    out.push((c2, p.clone()));
                }
                out.push((c, p.clone()));
            }
        }
    }
    // simplify the invocation
    if !w.args.globs.is_empty() {
        for i in 0..w.args.globs.len() {
            let mut c = w.clone();
            c.args.globs.remove(i);
            out.push((c, p.clone()));
        }
    }
    for i in 0..w.args.ignore.len() {
        let mut c = w.clone();
        c.args.ignore.remove(i);
        out.push((c, p.clone()));
    }
    for i in 0..w.args.enable.len() {
        let mut c = w.clone();
        c.args.enable.remove(i);
        out.push((c, p.clone()));
    }
    for i in 0..w.args.disable.len() {
        let mut c = w.clone();
        c.args.disable.remove(i);
        out.push((c, p.clone()));
    }
    if w.args.list {
        let mut c = w.clone();
        c.args.list = false;
        out.push((c, p.clone()));
    }
    if w.args.split_globs {
        let mut c = w.clone();
        c.args.split_globs = false;
        out.push((c, p.clone()));
    }
    if w.args.split_flags {
        let mut c = w.clone();
        c.args.split_flags = false;
        out.push((c, p.clone()));
    }
    if w.args.dashdash {
        let mut c = w.clone();
        c.args.dashdash = false;
        out.push((c, p.clone()));
    }
    if w.args.long_flags || w.args.flags_last {
        let mut c = w.clone();
        c.args.long_flags = false;
        c.args.flags_last = false;
        out.push((c, p.clone()));
    }
    if !w.cwd.is_empty() {
        let mut c = w.clone();
        c.cwd = String::new();
        out.push((c, p.clone()));
    }
    if !w.gitignore.is_empty() {
        let mut c = w.clone();
        c.gitignore.clear();
        out.push((c, p.clone()));
    }
    // stdin / diffs
    if !w.is_terminal() {
        let mut c = w.clone();
        c.stdin = StdinSpec::Terminal;
        for f in &mut c.files {
            f.diff = FileDiff::None;
        }
        c.files.retain(|f| !matches!(f.diff, FileDiff::Deleted));
        out.push((c, p.clone()));
        for i in 0..w.files.len() {
            if !matches!(w.files[i].diff, FileDiff::None) {
                let mut c = w.clone();
                if matches!(c.files[i].diff, FileDiff::Deleted) {
                    c.files.remove(i);
                } else {
                    c.files[i].diff = FileDiff::None;
                }
                out.push((c, p.clone()));
            }
        }
    }
    for i in 0..w.files.len() {
        if let FileDiff::Insert { line, renamed_from, edit, more } = &w.files[i].diff {
            if !more.is_empty() {
                let mut c = w.clone();
                c.files[i].diff = FileDiff::Insert { line: *line, renamed_from: renamed_from.clone(), edit: edit.clone(), more: vec![] };
                out.push((c, p.clone()));
                let mut c = w.clone();
                c.files[i].diff = FileDiff::Insert { line: more[0].0, renamed_from: renamed_from.clone(), edit: more[0].1.clone(), more: vec![] };
                out.push((c, p.clone()));
            }
        }
        if let FileDiff::Insert { line, renamed_from: Some(_), edit, more } = &w.files[i].diff {
            let mut c = w.clone();
            c.files[i].diff = FileDiff::Insert { line: *line, renamed_from: None, edit: edit.clone(), more: more.clone() };
            out.push((c, p.clone()));
        }
        if let FileDiff::Insert { line, renamed_from, edit, more } = &w.files[i].diff {
            // a removal in front of an end tag has no insertion counterpart at the same line
            let is_tag = render_file(&w.files[i], false).blocks.iter().any(|b| b.end_line == *line);
            if *edit != LineEdit::Inserted && !is_tag {
                let mut c = w.clone();
                c.files[i].diff = FileDiff::Insert { line: *line, renamed_from: renamed_from.clone(), edit: LineEdit::Inserted, more: more.clone() };
                out.push((c, p.clone()));
            }
        }
    }
    if !w.diff_noise.is_empty() {
        let mut c = w.clone();
        c.diff_noise.clear();
        out.push((c, p.clone()));
    }
    for i in 0..w.files.len() {
        if w.files[i].md_ref {
            let mut c = w.clone();
            c.files[i].md_ref = false;
            out.push((c, p.clone()));
        }
        if w.files[i].md_nest > 0 {
            let mut c = w.clone();
            c.files[i].md_nest = 0;
            out.push((c, p.clone()));
        }
        if w.files[i].pad_kib > 0 {
            let mut c = w.clone();
            c.files[i].pad_kib = 0;
            out.push((c, p.clone()));
        }
    }
    for i in 0..w.files.len() {
        if w.files[i].was_symlink {
            let mut c = w.clone();
            c.files[i].was_symlink = false;
            out.push((c, p.clone()));
        }
    }
    for i in 0..w.files.len() {
        if w.files[i].no_final_newline {
            let mut c = w.clone();
            c.files[i].no_final_newline = false;
            out.push((c, p.clone()));
        }
    }
    if w.diff_context != 0 {
        let mut c = w.clone();
        c.diff_context = 0;
        out.push((c, p.clone()));
    }
    for i in 0..w.files.len() {
        if w.files[i].block_comments != 0 {
            let mut c = w.clone();
            c.files[i].block_comments = 0;
            out.push((c, p.clone()));
        }
    }
    for i in 0..w.files.len() {
        if w.files[i].spelling != 0 {
            let mut c = w.clone();
            c.files[i].spelling = 0;
            out.push((c, p.clone()));
        }
    }
    for i in 0..w.files.len() {
        if w.files[i].bom {
            let mut c = w.clone();
            c.files[i].bom = false;
            out.push((c, p.clone()));
        }
    }
    for i in 0..w.files.len() {
        if w.files[i].tab_tags {
            let mut c = w.clone();
            c.files[i].tab_tags = false;
            out.push((c, p.clone()));
        }
    }
    for i in 0..w.files.len() {
        if w.files[i].unwalkable {
            let mut c = w.clone();
            c.files[i].unwalkable = false;
            out.push((c, p.clone()));
        }
    }
    // attributes, content lines
    for fi in 0..w.files.len() {
        let mut paths = Vec::new();
        block_paths(&w.files[fi].blocks, &mut Vec::new(), &mut paths);
        for path in paths {
            let mut probe = w.files[fi].blocks.clone();
            let Some(b) = block_at(&mut probe, &path) else { continue };
            let (nattrs, nlines, ntail) = (b.attrs.len(), b.lines.len(), b.tail.len());
            let insert = matches!(w.files[fi].diff, FileDiff::Insert { .. });
            for ai in 0..nattrs {
                let mut c = w.clone();
                if let Some(b) = block_at(&mut c.files[fi].blocks, &path) {
                    b.attrs.remove(ai);
                }
                out.push((c, p.clone()));
            }
            if !insert {
                if nlines > 1 {
                    let mut c = w.clone();
                    if let Some(b) = block_at(&mut c.files[fi].blocks, &path) {
                        b.lines.truncate(nlines / 2);
                    }
                    out.push((c, p.clone()));
                }
                for li in 0..nlines {
                    let mut c = w.clone();
                    if let Some(b) = block_at(&mut c.files[fi].blocks, &path) {
                        b.lines.remove(li);
                    }
                    out.push((c, p.clone()));
                }
                for li in 0..ntail {
                    let mut c = w.clone();
                    if let Some(b) = block_at(&mut c.files[fi].blocks, &path) {
                        b.tail.remove(li);
                    }
                    out.push((c, p.clone()));
                }
            }
        }
    }
    // shorten paths: move a file to the top level
    for fi in 0..w.files.len() {
        if let Some((_, name)) = w.files[fi].path.rsplit_once('/') {
            let mut c = w.clone();
            c.files[fi].path = name.to_string();
            out.push((c, p.clone()));
        }
    }
    // scripts and endpoint
    for si in 0..w.scripts.len() {
        if w.scripts[si].kind != ScriptKind::Good {
            let mut c = w.clone();
            c.scripts[si].kind = ScriptKind::Good;
            out.push((c, p.clone()));
        }
    }
    for (t, r) in &w.ai {
        if let AiReply::RetryThen { code, times, then } = r {
            let mut c = w.clone();
            c.ai.insert(t.clone(), then.as_ref().clone());
            out.push((c, p.clone()));
            if *times > 1 {
                let mut c = w.clone();
                c.ai.insert(t.clone(), AiReply::RetryThen { code: *code, times: 1, then: then.clone() });
                out.push((c, p.clone()));
            }
        }
        if r.is_fault() {
            let mut c = w.clone();
            c.ai.insert(t.clone(), AiReply::Text("OK".into()));
            out.push((c, p.clone()));
        }
        let mut c = w.clone();
        c.ai.remove(t);
        out.push((c, p.clone()));
    }
    if w.env.ambient_openai_env {
        let mut c = w.clone();
        c.env.ambient_openai_env = false;
        out.push((c, p.clone()));
    }
    if w.env.lua_mode.is_some() {
        let mut c = w.clone();
        c.env.lua_mode = None;
        out.push((c, p.clone()));
    }
    if w.env.ai_keep_alive || w.env.ai_refuse_connections || !w.env.ai_base_path.is_empty() || w.env.ai_model.is_some() {
        let mut c = w.clone();
        c.env.ai_keep_alive = false;
        c.env.ai_base_path = String::new();
        c.env.ai_model = None;
        out.push((c.clone(), p.clone()));
        c.env.ai_refuse_connections = false;
        out.push((c, p.clone()));
    }
    if w.poison_out_of_scope {
        let mut c = w.clone();
        c.poison_out_of_scope = false;
        out.push((c, p.clone()));
    }
    // the plan: identity permutations, no yields, no latency, default transport, small hash seeds
    if p.unit_seed != 0 {
        let mut q = p.clone();
        q.unit_seed = 0;
        out.push((w.clone(), q));
    }
    if p.walk_seed != 0 {
        let mut q = p.clone();
        q.walk_seed = 0;
        out.push((w.clone(), q));
    }
    if p.diff_seed != 0 {
        let mut q = p.clone();
        q.diff_seed = 0;
        out.push((w.clone(), q));
    }
    if p.lua_yields.values().any(|v| *v != 0) {
        let mut q = p.clone();
        for v in q.lua_yields.values_mut() {
            *v = 0;
        }
        out.push((w.clone(), q));
    }
    if p.lua_load_yields.values().any(|v| *v != 0) {
        let mut q = p.clone();
        for v in q.lua_load_yields.values_mut() {
            *v = 0;
        }
        out.push((w.clone(), q));
    }
    if p.lua_busy.values().any(|v| *v != 0) {
        let mut q = p.clone();
        for v in q.lua_busy.values_mut() {
            *v = 0;
        }
        out.push((w.clone(), q));
    }
    if p.ai_timing.values().any(|t| *t != Default::default()) {
        let mut q = p.clone();
        for t in q.ai_timing.values_mut() {
            *t = Default::default();
        }
        out.push((w.clone(), q));
    }
    if p.net != NetPlan::default() {
        let mut q = p.clone();
        q.net = NetPlan::default();
        out.push((w.clone(), q));
    }
    for hs in [1u64, 2, 3, 4, 5, 6, 7, 8] {
        if p.hash_seed > hs {
            let mut q = p.clone();
            q.hash_seed = hs;
            out.push((w.clone(), q));
        }
    }
    if p.workers > 1 || p.cores > 1 {
        let mut q = p.clone();
        q.workers = 1;
        q.cores = 1;
        out.push((w.clone(), q));
    }
    out
}

fn cleanup(w: &mut World, p: &mut Plan) {
    // drop scripts, replies and plan entries nothing refers to any more
    let mut used_scripts = std::collections::BTreeSet::new();
    let mut used_tokens = std::collections::BTreeSet::new();
    for f in &w.files {
        for_each_block(&f.blocks, &mut |b| {
            if let Some(s) = b.attr("check-lua") {
                used_scripts.insert(s.to_string());
            }
            if let Some(t) = b.attr("x-tok") {
                used_tokens.insert(t.to_string());
            }
            if let Some(c) = b.attr("check-ai") {
                if let Some(t) = model::find_ai_token(c) {
                    used_tokens.insert(t);
                }
            }
        });
    }
    w.scripts.retain(|s| used_scripts.contains(&s.path));
    w.ai.retain(|t, _| used_tokens.contains(t));
    p.lua_yields.retain(|t, _| used_tokens.contains(t));
    p.lua_busy.retain(|t, _| used_tokens.contains(t));
    p.lua_load_yields.retain(|s, _| used_scripts.contains(s));
    p.ai_timing.retain(|t, _| used_tokens.contains(t));
}

pub fn minimise(
    w: &World,
    p: &Plan,
    clause: &str,
    runner: Runner,
    max_attempts: usize,
) -> (World, Plan, ChildReport, usize) {
    let mut cur_w = w.clone();
    let mut cur_p = p.clone();
    let mut cur_r = runner(&cur_w, &cur_p);
    let mut attempts = 0;
    let mut steps = 0;
    if !cur_r.mismatches.iter().any(|m| m.clause == clause) {
        // not reproducible as-is (level B without schedule control): report unminimised
        return (cur_w, cur_p, cur_r, 0);
    }
    loop {
        let mut progressed = false;
        let cands = candidates(&cur_w, &cur_p);
        for (mut cw, mut cp) in cands {
            if attempts >= max_attempts {
                break;
            }
            cleanup(&mut cw, &mut cp);
            if cw == cur_w && cp == cur_p {
                continue;
            }
            if cw.files.is_empty() && !cur_w.files.is_empty() && clause != "rejected-flags-accepted" {
                continue;
            }
            if model::invalid_reason(&cw).is_some() {
                continue;
            }
            attempts += 1;
            let r = runner(&cw, &cp);
            if r.mismatches.iter().any(|m| m.clause == clause) {
                cur_w = cw;
                cur_p = cp;
                cur_r = r;
                steps += 1;
                progressed = true;
                break; // restart from the most aggressive candidates
            }
        }
        if !progressed || attempts >= max_attempts {
            break;
        }
    }
    (cur_w, cur_p, cur_r, steps)
}

/// Classifies a (minimised) failure: `<property>:<clause>[:<feature>...]`. Features name the
/// specific input shape that is needed, so that a different violation of the same property is
/// not mistaken for a listed finding.
pub fn finding_signature(prop: &str, clause: &str, w: &World) -> String {
    let mut feats: Vec<&str> = Vec::new();
    let in_diff = |f: &FileSpec| !w.is_terminal() && matches!(f.diff, FileDiff::Added | FileDiff::Insert { .. });
    if w.files.iter().any(|f| in_diff(f) && f.path.starts_with("b/")) {
        feats.push("diff-target-under-top-level-dir-b");
    }
    if w.files.iter().any(|f| in_diff(f) && f.path.contains(' ')) {
        feats.push("diff-target-with-space");
    }
    if w.files.iter().any(|f| in_diff(f) && f.unwalkable) {
        feats.push("diff-target-hidden");
    }
    if !w.cwd.is_empty() {
        feats.push("cwd-subdir");
    }
    let mut s = format!("{prop}:{clause}");
    for f in feats {
        s.push(':');
        s.push_str(f);
    }
    s
}
