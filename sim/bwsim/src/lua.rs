//! Lua script files for `check-lua` worlds. Scripts carry their own scheduling points
//! (`coroutine.yield()` inside `validate` returns Pending to Tokio and re-queues the task), so a
//! per-token yield count from the plan fixes the completion permutation of the block tasks.

use crate::world::{ScriptKind, ScriptSpec};
use std::collections::BTreeMap;
use std::path::Path;

pub const CALL_LOG: &str = "lua/calls.log";

fn lua_table(m: &BTreeMap<String, u32>) -> String {
    let mut s = String::from("{");
    for (k, v) in m {
        s.push_str(&format!(" [\"{k}\"] = {v},"));
    }
    s.push_str(" }");
    s
}

/// Scheduling points at the *top level* of a script, after its definitions: the task that loads
/// the script returns Pending `n` times between defining `validate` and looking it up, which is
/// where interpreter state shared between blocks (if a change introduces any) gets overwritten.
fn load_yield_suffix(n: u32) -> String {
    if n == 0 {
        String::new()
    } else {
        format!("for _ = 1, {n} do coroutine.yield() end\n")
    }
}

pub fn good_script(yields: &BTreeMap<String, u32>, busy: &BTreeMap<String, u32>) -> String {
    format!(
        r#"local Y = {y}
local B = {b}
local LOG = "{log}"
function validate(ctx, content)
  local tok = ctx.attrs["x-tok"] or "?"
  local n = Y[tok] or 0
  for i = 1, n do coroutine.yield() end
  local spin = (B[tok] or 0) * 1000
  local acc = 0
  for i = 1, spin do acc = acc + i % 7 end
  -- a coroutine of the script's own must run undisturbed, however much work it does
  local gen = coroutine.wrap(function()
    local c = 0
    for i = 1, 30000 do c = c + 1 end
    coroutine.yield(c)
    coroutine.yield(c + 1)
  end)
  local first, second = gen(), gen()
  if first ~= 30000 or second ~= 30001 then
    return "COROUTINE-CANARY " .. tostring(first) .. " " .. tostring(second)
  end
  local keys = {{}}
  for k, _ in pairs(ctx.attrs) do keys[#keys + 1] = k end
  table.sort(keys)
  local parts = {{}}
  for _, k in ipairs(keys) do parts[#parts + 1] = k .. "=" .. ctx.attrs[k] end
  local payload = tok .. "\31" .. ctx.file .. "\31" .. tostring(ctx.line) .. "\31" .. table.concat(parts, "\30") .. "\31" .. content
  if io then
    local f = io.open(LOG, "a")
    if f then
      -- one record = one write(2): with the default buffer a long record leaves in pieces, and
      -- records appended by other runtime threads at the same moment land between them
      local rec = tostring(#payload) .. ":" .. payload .. "\n"
      f:setvbuf("full", #rec + 64)
      f:write(rec)
      f:close()
    end
  end
  if ctx.attrs["x-ret"] == "str" then return payload end
  if ctx.attrs["x-ret"] == "empty" then return "" end
  return nil
end
"#,
        y = lua_table(yields),
        b = lua_table(busy),
        log = CALL_LOG
    )
}

fn late_error_script(yields: &BTreeMap<String, u32>) -> String {
    format!(
        r#"local Y = {y}
function validate(ctx, content)
  local tok = ctx.attrs["x-tok"] or "?"
  local n = Y[tok] or 0
  for i = 1, n do coroutine.yield() end
  error("late boom in " .. tok)
end
"#,
        y = lua_table(yields)
    )
}

/// Materialises one script under `root` (paths in specs are relative to `root`).
pub fn write_script(
    root: &Path,
    spec: &ScriptSpec,
    yields: &BTreeMap<String, u32>,
    busy: &BTreeMap<String, u32>,
    load_yields: u32,
) -> std::io::Result<()> {
    let p = root.join(&spec.path);
    if let Some(parent) = p.parent() {
        std::fs::create_dir_all(parent)?;
    }
    let mut text: Vec<u8> = match spec.kind {
        ScriptKind::Good => good_script(yields, busy).into_bytes(),
        ScriptKind::LateRuntimeError => late_error_script(yields).into_bytes(),
        ScriptKind::SyntaxError => b"function validate(ctx, content)\n  return nil\nen\n".to_vec(),
        ScriptKind::TopLevelError => b"error(\"top-level boom\")\nfunction validate(ctx, content) return nil end\n".to_vec(),
        ScriptKind::RuntimeError => b"function validate(ctx, content)\n  error(\"boom\")\nend\n".to_vec(),
        ScriptKind::ErrorTable => b"function validate(ctx, content)\n  error({ code = 42 })\nend\n".to_vec(),
        ScriptKind::NoValidate => b"function check(ctx, content)\n  return nil\nend\n".to_vec(),
        ScriptKind::ValidateNotFunction => b"validate = 42\n".to_vec(),
        ScriptKind::ReturnsNumber => b"function validate(ctx, content)\n  return 7\nend\n".to_vec(),
        ScriptKind::ReturnsBoolean => b"function validate(ctx, content)\n  return false\nend\n".to_vec(),
        ScriptKind::ReturnsTable => b"function validate(ctx, content)\n  return { \"nope\" }\nend\n".to_vec(),
        ScriptKind::NotUtf8 => vec![b'-', b'-', b' ', 0xff, 0xfe, 0xfd, b'\n'],
        ScriptKind::EmptyFile => Vec::new(),
        ScriptKind::Missing => return Ok(()),
        ScriptKind::Directory => {
            std::fs::create_dir_all(&p)?;
            return Ok(());
        }
    };
    if matches!(
        spec.kind,
        ScriptKind::Good
            | ScriptKind::LateRuntimeError
            | ScriptKind::RuntimeError
            | ScriptKind::ErrorTable
            | ScriptKind::NoValidate
            | ScriptKind::ValidateNotFunction
            | ScriptKind::ReturnsNumber
            | ScriptKind::ReturnsBoolean
            | ScriptKind::ReturnsTable
    ) {
        text.extend_from_slice(load_yield_suffix(load_yields).as_bytes());
    }
    std::fs::write(&p, text)
}

/// Parses the call log written by good scripts in `safe` mode: one `len:payload` record each.
pub fn read_call_log(root: &Path) -> Vec<String> {
    let Ok(bytes) = std::fs::read(root.join(CALL_LOG)) else {
        return Vec::new();
    };
    let mut out = Vec::new();
    let mut i = 0;
    while i < bytes.len() {
        let Some(colon) = bytes[i..].iter().position(|&b| b == b':') else {
            break;
        };
        let Ok(len) = std::str::from_utf8(&bytes[i..i + colon])
            .unwrap_or("")
            .parse::<usize>()
        else {
            break;
        };
        let start = i + colon + 1;
        if start + len > bytes.len() {
            break;
        }
        out.push(String::from_utf8_lossy(&bytes[start..start + len]).to_string());
        i = start + len + 1;
    }
    out
}
