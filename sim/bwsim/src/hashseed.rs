//! Ownership of the process's randomness source.
//!
//! std seeds every thread's `RandomState` keys through the libc symbol `getrandom`; defining that
//! symbol in this executable makes HashMap/HashSet iteration orders (and everything else that
//! draws from the kernel RNG through libc) a function of the run's plan.
//!
//! The stream a thread receives is keyed by (run hash seed, logical thread label, per-thread call
//! index), *not* by global call order, so it does not depend on how threads race to their first
//! HashMap. Labels are set by the gate wrappers; threads that never pass a gate get
//! `ANON_BASE + k` in arrival order (today there is exactly one such thread, see DESIGN §2.3).

use crate::rng::{mix_n, splitmix64};
use std::cell::Cell;
use std::sync::atomic::{AtomicBool, AtomicU64, Ordering};

static ACTIVE: AtomicBool = AtomicBool::new(false);
static RUN_SEED: AtomicU64 = AtomicU64::new(0);
static ANON_NEXT: AtomicU64 = AtomicU64::new(0);
static CALLS_TOTAL: AtomicU64 = AtomicU64::new(0);

pub const LABEL_MAIN: u64 = 1;
pub const LABEL_ASYNC: u64 = 2;
pub const LABEL_UNIT_BASE: u64 = 100;
pub const ANON_BASE: u64 = 10_000;

thread_local! {
    static LABEL: Cell<u64> = const { Cell::new(0) };
    static CALLS: Cell<u64> = const { Cell::new(0) };
}

pub fn activate(hash_seed: u64) {
    RUN_SEED.store(hash_seed, Ordering::SeqCst);
    ANON_NEXT.store(0, Ordering::SeqCst);
    CALLS_TOTAL.store(0, Ordering::SeqCst);
    ACTIVE.store(true, Ordering::SeqCst);
}

pub fn deactivate() {
    ACTIVE.store(false, Ordering::SeqCst);
}

/// Names the current thread for the purpose of its random stream (idempotent per thread; a
/// thread keeps the first label it is given unless `force`).
pub fn set_label(label: u64) {
    LABEL.with(|l| l.set(label));
}

pub fn calls_total() -> u64 {
    CALLS_TOTAL.load(Ordering::SeqCst)
}

pub fn anon_threads() -> u64 {
    ANON_NEXT.load(Ordering::SeqCst)
}

#[unsafe(no_mangle)]
pub unsafe extern "C" fn getrandom(buf: *mut u8, len: usize, flags: u32) -> isize {
    if !ACTIVE.load(Ordering::SeqCst) {
        return unsafe { libc::syscall(libc::SYS_getrandom, buf, len, flags) as isize };
    }
    CALLS_TOTAL.fetch_add(1, Ordering::SeqCst);
    let label = LABEL.with(|l| {
        if l.get() == 0 {
            l.set(ANON_BASE + ANON_NEXT.fetch_add(1, Ordering::SeqCst));
        }
        l.get()
    });
    let idx = CALLS.with(|c| {
        let v = c.get();
        c.set(v + 1);
        v
    });
    let mut s = mix_n(mix_n(RUN_SEED.load(Ordering::SeqCst), label), idx);
    let mut i = 0;
    while i < len {
        let v = splitmix64(&mut s).to_le_bytes();
        let n = (len - i).min(8);
        unsafe { std::ptr::copy_nonoverlapping(v.as_ptr(), buf.add(i), n) };
        i += n;
    }
    len as isize
}
