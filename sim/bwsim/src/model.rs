//! Reference model: maps a `World` to the observation blockwatch must produce.
//!
//! Shares no code with blockwatch. It is only defined on the restricted input language the
//! generators emit (see `validity`), on which the meaning of every rule is unambiguous.

use crate::world::*;
use std::collections::{BTreeMap, BTreeSet};

pub const VALIDATORS: &[&str] = &[
    "affects",
    "keep-sorted",
    "keep-unique",
    "line-pattern",
    "line-count",
    "check-ai",
    "check-lua",
];

pub const KNOWN_EXTENSIONS: &[&str] = &[
    "py", "rb", "sh", "rs", "js", "go", "ts", "toml", "yaml", "yml", "java", "c", "cpp", "cs", "kt", "swift",
    "php", "md", "markdown", "html",
];

#[derive(Clone, Debug, PartialEq, Eq, PartialOrd, Ord, serde::Serialize, serde::Deserialize)]
pub struct ExpDiag {
    pub file: String,
    pub code: String,
    /// Line of the start tag of the block the diagnostic is about.
    pub block_line: usize,
    /// 1 = error … 4 = hint.
    pub severity: u8,
    /// What identifies the diagnostic beyond its block: Lua payload, AI reply, affected
    /// `file:name`, `actual op expected`; empty for sort/unique/pattern.
    pub token: String,
}

#[derive(Clone, Debug, PartialEq, Eq, PartialOrd, Ord, serde::Serialize, serde::Deserialize)]
pub struct ExpListed {
    pub file: String,
    pub name: String,
    pub line: usize,
    pub attrs: BTreeMap<String, String>,
    pub is_content_modified: bool,
}

#[derive(Clone, Debug, PartialEq, serde::Serialize, serde::Deserialize)]
pub enum Expected {
    /// Bad flags: rejected before anything is validated.
    Rejected(String),
    /// The run must fail (non-zero, no success report); reasons are informational.
    Failed(Vec<String>),
    /// The run must report exactly this multiset of diagnostics; exit 1 iff any severity 1.
    Report(Vec<ExpDiag>),
    /// `list`: exactly these blocks.
    Listing(Vec<ExpListed>),
}

impl Expected {
    pub fn kind(&self) -> &'static str {
        match self {
            Expected::Rejected(_) => "rejected",
            Expected::Failed(_) => "failed",
            Expected::Report(_) => "report",
            Expected::Listing(_) => "listing",
        }
    }
    pub fn exit_code(&self) -> Option<i32> {
        match self {
            Expected::Report(d) => Some(if d.iter().any(|d| d.severity == 1) { 1 } else { 0 }),
            Expected::Listing(_) => Some(0),
            _ => None,
        }
    }
}

/// One selected block as the model sees it.
#[derive(Clone, Debug)]
pub struct SelBlock {
    pub file: String,
    pub layout: BlockLayout,
    pub content_modified: bool,
}

#[derive(Clone, Debug)]
pub struct Judgement {
    pub expected: Expected,
    /// Files whose content may influence the run (examined files).
    pub scope: BTreeSet<String>,
    /// Selected blocks (what `list` shows / what validators see).
    pub selected: Vec<SelBlock>,
    /// Tokens of Lua blocks that an enabled check-lua evaluates (one call each).
    pub lua_tokens: Vec<String>,
    /// Tokens of AI blocks that an enabled check-ai evaluates (one request each).
    pub ai_tokens: Vec<String>,
    /// Enabled validators.
    pub enabled: BTreeSet<String>,
    pub rendered: Vec<RenderedFile>,
    pub poisoned: BTreeSet<String>,
}

// ---------------------------------------------------------------------------------------------
// globs (restricted forms only)

/// `path` ends in `.<ext>`, where `<ext>` may be an alternation `{a,b}`.
fn has_ext(path: &str, ext: &str) -> bool {
    match ext.strip_prefix('{').and_then(|e| e.strip_suffix('}')) {
        Some(alts) => alts.split(',').any(|a| path.ends_with(&format!(".{a}"))),
        None => path.ends_with(&format!(".{ext}")),
    }
}

pub fn glob_match(pattern: &str, path: &str) -> bool {
    if pattern == "**" || pattern == "**/*" {
        return true;
    }
    if let Some(rest) = pattern.strip_prefix("**/") {
        if let Some(ext) = rest.strip_prefix("*.") {
            return has_ext(path, ext);
        }
        if rest.contains('[') || rest.contains('{') {
            return false; // `[id]` / `{slug}` are pattern syntax, not the literal file name
        }
        return path == rest || path.ends_with(&format!("/{rest}"));
    }
    if let Some(dir) = pattern.strip_suffix("/**") {
        return path.starts_with(&format!("{dir}/"));
    }
    if let Some(pos) = pattern.find("/**/*.") {
        let dir = &pattern[..pos];
        let ext = &pattern[pos + 6..];
        return path.starts_with(&format!("{dir}/")) && has_ext(path, ext);
    }
    if let Some(ext) = pattern.strip_prefix("*.") {
        return has_ext(path, ext);
    }
    if let Some(ext) = pattern.strip_prefix("*/*.") {
        // `*` crosses separators, but the literal `/` must be there
        return path.contains('/') && has_ext(path, ext);
    }
    if let Some(pos) = pattern.find("/*.") {
        // `dir/*.ext`: `*` is not stopped by `/`
        let (dir, ext) = (&pattern[..pos], &pattern[pos + 3..]);
        if !dir.contains(['*', '[', '{']) {
            return path.starts_with(&format!("{dir}/")) && has_ext(path, ext);
        }
    }
    // an "exact path" that contains glob metacharacters is still a pattern: `[id]` is a character
    // class and `{slug}` an alternation, neither matches the file of that literal name
    if pattern.contains('[') || pattern.contains('{') {
        return false;
    }
    pattern == path
}

fn any_match(globs: &[String], path: &str) -> bool {
    globs.iter().any(|g| glob_match(g, path))
}

/// Suffixes blockwatch registers that are more than a plain last extension.
pub const COMPOUND_SUFFIXES: &[&str] = &["go.mod", "go.sum", "go.work", "d.ts"];

/// Whether a file name maps to a grammar: every dot-suffix of the base name is tried (so
/// `x.go.mod` and `a.d.ts` are found), then the whole name (`go.mod`); `-E ext=known` adds
/// `ext`. `legacy.mod`, `notes.sum` map to nothing and must be skipped silently.
pub fn known_extension(path: &str, extra: &[(String, String)]) -> bool {
    let name = path.rsplit('/').next().unwrap_or(path);
    let known = |s: &str| {
        KNOWN_EXTENSIONS.contains(&s) || COMPOUND_SUFFIXES.contains(&s) || extra.iter().any(|(k, _)| k == s)
    };
    for (i, _) in name.match_indices('.') {
        if known(&name[i + 1..]) {
            return true;
        }
    }
    known(name)
}

// ---------------------------------------------------------------------------------------------
// patterns with hand-written reference matchers

/// Patterns applied per content line by keep-sorted-pattern / keep-unique.
pub const LINE_KEY_PATTERNS: &[&str] = &[
    "^(?P<value>[a-z]+)=[0-9]+$",
    "^[a-z]+=(?P<value>[0-9]+)$",
    "^[a-z]+$",
];
/// Patterns for line-pattern (applied to the trimmed line, unanchored search).
pub const LINE_PATTERNS: &[&str] = &["^[a-z]+$", "^[a-z]+=[0-9]+$", "^[a-z0-9=]+$", "[0-9]"];
/// Patterns for check-lua-pattern / check-ai-pattern (applied to the whole content).
pub const CONTENT_PATTERNS: &[&str] = &[
    "(?P<value>[a-z]+)=",
    "(?s).*",
    "zzz-never-matche[s]",
    "[0-9]+",
    // groups that are not called `value` select nothing: the whole match is the extract
    "([a-z]+)=[0-9]+",
    "(?P<key>[a-z]+)=",
    // a `value` group that need not take part in the match: without it the whole match counts
    "(?P<value>[0-9]+ )?[a-z]+",
    // `.` stops at a line break
    "=.*",
];
pub const INVALID_PATTERNS: &[&str] = &[
    "(", "[a-", "(?P<value>", "*a", "a{2,1}", "\\", "a)(b", "x)|(y", ")", "[a-z]+)=(?:[0-9]", "(?P<value>[a-z]+",
];

fn is_lower_word(s: &str) -> bool {
    !s.is_empty() && s.bytes().all(|b| b.is_ascii_lowercase())
}
fn is_digits(s: &str) -> bool {
    !s.is_empty() && s.bytes().all(|b| b.is_ascii_digit())
}

/// Key extracted from one raw content line by a LINE_KEY_PATTERNS entry.
fn line_key<'a>(pattern: &str, line: &'a str) -> Result<Option<&'a str>, String> {
    match pattern {
        "^(?P<value>[a-z]+)=[0-9]+$" => Ok(line
            .split_once('=')
            .filter(|(k, v)| is_lower_word(k) && is_digits(v))
            .map(|(k, _)| k)),
        "^[a-z]+=(?P<value>[0-9]+)$" => Ok(line
            .split_once('=')
            .filter(|(k, v)| is_lower_word(k) && is_digits(v))
            .map(|(_, v)| v)),
        "^[a-z]+$" => Ok(if is_lower_word(line) { Some(line) } else { None }),
        p if INVALID_PATTERNS.contains(&p) => Err(format!("uncompilable regex {p:?}")),
        p => panic!("model: line-key pattern {p:?} outside the modelled pool"),
    }
}

fn line_pattern_matches(pattern: &str, trimmed: &str) -> Result<bool, String> {
    match pattern {
        "^[a-z]+$" => Ok(is_lower_word(trimmed)),
        "^[a-z]+=[0-9]+$" => Ok(trimmed
            .split_once('=')
            .is_some_and(|(k, v)| is_lower_word(k) && is_digits(v))),
        "^[a-z0-9=]+$" => Ok(!trimmed.is_empty()
            && trimmed
                .bytes()
                .all(|b| b.is_ascii_lowercase() || b.is_ascii_digit() || b == b'=')),
        "[0-9]" => Ok(trimmed.bytes().any(|b| b.is_ascii_digit())),
        p if INVALID_PATTERNS.contains(&p) => Err(format!("uncompilable regex {p:?}")),
        p => panic!("model: line-pattern {p:?} outside the modelled pool"),
    }
}

/// Extract for check-lua-pattern / check-ai-pattern from the whole (untrimmed) content.
fn content_extract(pattern: &str, content: &str) -> Result<String, String> {
    match pattern {
        "(?P<value>[a-z]+)=" => {
            let b = content.as_bytes();
            let mut i = 0;
            while i < b.len() {
                if b[i].is_ascii_lowercase() {
                    let start = i;
                    while i < b.len() && b[i].is_ascii_lowercase() {
                        i += 1;
                    }
                    if i < b.len() && b[i] == b'=' {
                        return Ok(content[start..i].to_string());
                    }
                } else {
                    i += 1;
                }
            }
            Ok(String::new())
        }
        "([a-z]+)=[0-9]+" | "(?P<key>[a-z]+)=" => {
            let with_digits = pattern.ends_with("[0-9]+");
            let b = content.as_bytes();
            let mut i = 0;
            while i < b.len() {
                if b[i].is_ascii_lowercase() {
                    let start = i;
                    while i < b.len() && b[i].is_ascii_lowercase() {
                        i += 1;
                    }
                    if i < b.len() && b[i] == b'=' {
                        if !with_digits {
                            return Ok(content[start..i + 1].to_string());
                        }
                        let mut k = i + 1;
                        while k < b.len() && b[k].is_ascii_digit() {
                            k += 1;
                        }
                        if k > i + 1 {
                            return Ok(content[start..k].to_string());
                        }
                    }
                } else {
                    i += 1;
                }
            }
            Ok(String::new())
        }
        "(?P<value>[0-9]+ )?[a-z]+" => {
            let b = content.as_bytes();
            let mut i = 0;
            while i < b.len() {
                if b[i].is_ascii_digit() {
                    let mut j = i;
                    while j < b.len() && b[j].is_ascii_digit() {
                        j += 1;
                    }
                    if j + 1 < b.len() && b[j] == b' ' && b[j + 1].is_ascii_lowercase() {
                        return Ok(content[i..j + 1].to_string());
                    }
                } else if b[i].is_ascii_lowercase() {
                    let mut j = i;
                    while j < b.len() && b[j].is_ascii_lowercase() {
                        j += 1;
                    }
                    return Ok(content[i..j].to_string());
                }
                i += 1;
            }
            Ok(String::new())
        }
        "=.*" => Ok(match content.find('=') {
            Some(i) => content[i..].split('\n').next().unwrap_or("").to_string(),
            None => String::new(),
        }),
        "(?s).*" => Ok(content.to_string()),
        "zzz-never-matche[s]" => Ok(String::new()),
        "[0-9]+" => {
            let b = content.as_bytes();
            let mut i = 0;
            while i < b.len() {
                if b[i].is_ascii_digit() {
                    let start = i;
                    while i < b.len() && b[i].is_ascii_digit() {
                        i += 1;
                    }
                    return Ok(content[start..i].to_string());
                }
                i += 1;
            }
            Ok(String::new())
        }
        p if INVALID_PATTERNS.contains(&p) => Err(format!("uncompilable regex {p:?}")),
        p => panic!("model: content pattern {p:?} outside the modelled pool"),
    }
}

pub fn content_extract_pub(pattern: &str, content: &str) -> String {
    content_extract(pattern, content).unwrap_or_default()
}

/// What "the block's trimmed content" means: white space in the Unicode sense (U+00A0, U+3000, a
/// vertical tab, ... count) is removed at both ends.
pub fn trim_content(s: &str) -> &str {
    s.trim_matches(char::is_whitespace)
}

/// Rust's `str::trim` trims Unicode whitespace; the generators only use ASCII blanks around keys.
fn trim(s: &str) -> &str {
    s.trim_matches(|c: char| c == ' ' || c == '\t' || c == '\n' || c == '\r')
}

fn content_lines(content: &str) -> Vec<&str> {
    // same as str::lines for LF-only text: split on '\n', drop one trailing empty piece
    let mut v: Vec<&str> = content.split('\n').collect();
    if v.last() == Some(&"") {
        v.pop();
    }
    v
}

pub fn simple_number(s: &str) -> Option<f64> {
    // the spellings of not-a-number and the infinities that the generators write (f64::from_str
    // accepts them); comparisons are by IEEE total order (-0 < 0, every number < nan)
    if ["nan", "NaN", "inf", "-inf"].contains(&s) {
        return s.parse::<f64>().ok();
    }
    let body = s.strip_prefix('-').unwrap_or(s);
    let (int, frac) = match body.split_once('.') {
        Some((i, f)) => (i, Some(f)),
        None => (body, None),
    };
    if !is_digits(int) || frac.is_some_and(|f| !is_digits(f)) {
        return None;
    }
    s.parse::<f64>().ok()
}

// ---------------------------------------------------------------------------------------------
// per-rule reference evaluation

pub enum RuleOutcome {
    Ok,
    /// One or more violations, each with its token.
    Violations(Vec<String>),
    Err(String),
}

fn eval_keep_sorted(b: &BlockLayout) -> RuleOutcome {
    let v = b.attr("keep-sorted").unwrap();
    let dir = if trim(v).is_empty() {
        "asc".to_string()
    } else {
        v.to_lowercase()
    };
    if dir != "asc" && dir != "desc" {
        return RuleOutcome::Err(format!("unknown keep-sorted value {v:?}"));
    }
    let fmt = trim(b.attr("keep-sorted-format").unwrap_or(""));
    let numeric = if fmt.is_empty() || fmt.eq_ignore_ascii_case("lexicographic") {
        false
    } else if fmt.eq_ignore_ascii_case("numeric") {
        true
    } else {
        return RuleOutcome::Err(format!("unknown keep-sorted-format {fmt:?}"));
    };
    let pattern = b.attr("keep-sorted-pattern").unwrap_or("");
    let mut prev: Option<&str> = None;
    for line in content_lines(&b.content) {
        let key = if pattern.is_empty() {
            let t = trim(line);
            if t.is_empty() { None } else { Some(t) }
        } else {
            match line_key(pattern, line) {
                Ok(k) => k,
                Err(e) => return RuleOutcome::Err(e),
            }
        };
        let Some(cur) = key else { continue };
        if let Some(p) = prev {
            let out_of_order = if numeric {
                let (Some(a), Some(c)) = (simple_number(p), simple_number(cur)) else {
                    return RuleOutcome::Err(format!("non-numeric key among {p:?}, {cur:?}"));
                };
                let ord = a.total_cmp(&c);
                if dir == "asc" { ord.is_gt() } else { ord.is_lt() }
            } else if dir == "asc" {
                p > cur
            } else {
                p < cur
            };
            if out_of_order {
                return RuleOutcome::Violations(vec![String::new()]);
            }
        }
        prev = Some(cur);
    }
    RuleOutcome::Ok
}

fn eval_keep_unique(b: &BlockLayout) -> RuleOutcome {
    let pattern = b.attr("keep-unique").unwrap();
    let mut seen: BTreeSet<&str> = BTreeSet::new();
    for line in content_lines(&b.content) {
        let key = if pattern.is_empty() {
            let t = trim(line);
            if t.is_empty() { None } else { Some(t) }
        } else {
            match line_key(pattern, line) {
                Ok(k) => k,
                Err(e) => return RuleOutcome::Err(e),
            }
        };
        if let Some(k) = key {
            if !seen.insert(k) {
                return RuleOutcome::Violations(vec![String::new()]);
            }
        }
    }
    RuleOutcome::Ok
}

fn eval_line_pattern(b: &BlockLayout) -> RuleOutcome {
    let pattern = b.attr("line-pattern").unwrap();
    if INVALID_PATTERNS.contains(&pattern) {
        return RuleOutcome::Err(format!("uncompilable line-pattern {pattern:?}"));
    }
    for line in content_lines(&b.content) {
        let t = trim(line);
        if t.is_empty() {
            continue;
        }
        match line_pattern_matches(pattern, t) {
            Ok(true) => {}
            Ok(false) => return RuleOutcome::Violations(vec![String::new()]),
            Err(e) => return RuleOutcome::Err(e),
        }
    }
    RuleOutcome::Ok
}

pub fn parse_line_count(expr: &str) -> Option<(&'static str, usize)> {
    let t = trim(expr);
    let (op, rest) = if let Some(r) = t.strip_prefix("<=") {
        ("<=", r)
    } else if let Some(r) = t.strip_prefix(">=") {
        (">=", r)
    } else if let Some(r) = t.strip_prefix("==") {
        ("==", r)
    } else if let Some(r) = t.strip_prefix('<') {
        ("<", r)
    } else if let Some(r) = t.strip_prefix('>') {
        (">", r)
    } else {
        return None;
    };
    let num = trim(rest);
    if !is_digits(num) {
        return None;
    }
    num.parse::<usize>().ok().map(|n| (op, n))
}

fn eval_line_count(b: &BlockLayout) -> RuleOutcome {
    let expr = b.attr("line-count").unwrap();
    let Some((op, n)) = parse_line_count(expr) else {
        return RuleOutcome::Err(format!("bad line-count {expr:?}"));
    };
    let actual = content_lines(&b.content)
        .iter()
        .filter(|l| !trim(l).is_empty())
        .count();
    let ok = match op {
        "<" => actual < n,
        "<=" => actual <= n,
        "==" => actual == n,
        ">=" => actual >= n,
        _ => actual > n,
    };
    if ok {
        RuleOutcome::Ok
    } else {
        RuleOutcome::Violations(vec![format!("{actual} {op} {n}")])
    }
}

/// Parsed `affects` references: (file or None for same file, name).
pub fn parse_affects(v: &str) -> Option<Vec<(Option<String>, String)>> {
    let mut out = Vec::new();
    for r in v.split(',') {
        let r = trim(r);
        let (f, n) = r.split_once(':')?;
        let f = trim(f);
        out.push((
            if f.is_empty() { None } else { Some(f.to_string()) },
            trim(n).to_string(),
        ));
    }
    Some(out)
}

pub fn lua_payload(file: &str, b: &BlockLayout, content: &str) -> String {
    let mut attrs: Vec<(String, String)> = b.attrs.clone();
    attrs.sort();
    let attrs: Vec<String> = attrs.iter().map(|(k, v)| format!("{k}={v}")).collect();
    format!(
        "{}\u{1f}{}\u{1f}{}\u{1f}{}\u{1f}{}",
        b.attr("x-tok").unwrap_or(""),
        file,
        b.start_line,
        attrs.join("\u{1e}"),
        content
    )
}

pub fn severity_of(b: &BlockLayout) -> Result<u8, String> {
    match b.attr("severity") {
        None => Ok(1),
        Some(s) => match s.to_ascii_lowercase().as_str() {
            "error" => Ok(1),
            "warning" => Ok(2),
            "info" => Ok(3),
            "hint" => Ok(4),
            _ => Err(format!("unknown severity {s:?}")),
        },
    }
}

pub fn is_ok_reply(t: &str) -> bool {
    t.eq_ignore_ascii_case("ok") || t.eq_ignore_ascii_case("ok.")
}

/// Extracts the token (`TK<digits>K`) from an AI condition or user message.
pub fn find_ai_token(s: &str) -> Option<String> {
    let b = s.as_bytes();
    let mut i = 0;
    while i + 3 < b.len() {
        if b[i] == b'T' && b[i + 1] == b'K' {
            let mut j = i + 2;
            while j < b.len() && b[j].is_ascii_digit() {
                j += 1;
            }
            if j > i + 2 && j < b.len() && b[j] == b'K' {
                return Some(s[i..=j].to_string());
            }
        }
        i += 1;
    }
    None
}

// ---------------------------------------------------------------------------------------------

pub fn render_all(world: &World, poisoned: &BTreeSet<String>) -> Vec<RenderedFile> {
    world
        .files
        .iter()
        .map(|f| render_file(f, poisoned.contains(&f.path)))
        .collect()
}

/// The set of files blockwatch may examine, with the block filter that applies to each:
/// `true` = every block (scanned), `false` = only blocks the diff touches.
pub fn scope_of(world: &World) -> BTreeMap<String, bool> {
    let a = &world.args;
    let mut scope = BTreeMap::new();
    let terminal = world.is_terminal();
    let should_scan = !a.globs.is_empty() || terminal;
    for f in &world.files {
        if matches!(f.diff, FileDiff::Deleted) {
            continue;
        }
        if any_match(&a.ignore, &f.path) {
            continue;
        }
        let scanned = should_scan
            && !f.unwalkable
            && (a.globs.is_empty() || any_match(&a.globs, &f.path));
        let in_diff = !terminal && !matches!(f.diff, FileDiff::None);
        if scanned {
            scope.insert(f.path.clone(), true);
        } else if in_diff {
            scope.insert(f.path.clone(), false);
        }
    }
    scope
}

pub fn judge(world: &World) -> Judgement {
    let a = &world.args;
    let scope_map = scope_of(world);
    let poisoned: BTreeSet<String> = if world.poison_out_of_scope {
        world
            .files
            .iter()
            .filter(|f| !matches!(f.diff, FileDiff::Deleted))
            .filter(|f| !scope_map.contains_key(&f.path))
            .map(|f| f.path.clone())
            .collect()
    } else {
        BTreeSet::new()
    };
    let rendered = render_all(world, &poisoned);
    let mut j = Judgement {
        expected: Expected::Report(vec![]),
        scope: scope_map.keys().cloned().collect(),
        selected: vec![],
        lua_tokens: vec![],
        ai_tokens: vec![],
        enabled: BTreeSet::new(),
        rendered,
        poisoned,
    };

    // ---- flags
    for v in a.enable.iter().chain(a.disable.iter()) {
        if !VALIDATORS.contains(&v.as_str()) {
            j.expected = Expected::Rejected(format!("unknown validator {v:?}"));
            return j;
        }
    }
    for (_, v) in &a.extensions {
        if !KNOWN_EXTENSIONS.contains(&v.as_str()) {
            j.expected = Expected::Rejected(format!("unsupported extension mapping target {v:?}"));
            return j;
        }
    }
    if !a.enable.is_empty() && !a.disable.is_empty() {
        j.expected = Expected::Rejected("--enable together with --disable".into());
        return j;
    }
    for v in VALIDATORS {
        let on = if !a.enable.is_empty() {
            a.enable.iter().any(|e| e == v)
        } else {
            !a.disable.iter().any(|d| d == v)
        };
        if on {
            j.enabled.insert(v.to_string());
        }
    }

    // ---- selection
    let terminal = world.is_terminal();
    for (fi, f) in world.files.iter().enumerate() {
        let Some(&all) = scope_map.get(&f.path) else {
            continue;
        };
        if !known_extension(&f.path, &a.extensions) {
            continue;
        }
        let r = &j.rendered[fi];
        for b in &r.blocks {
            let (content_mod, tag_mod) = if terminal {
                (false, false)
            } else {
                match &f.diff {
                    FileDiff::None | FileDiff::Deleted => (false, false),
                    FileDiff::Added => (true, true),
                    // a removed line is reported at the place where it used to be: in front of
                    // rendered line `line`, which may be the block's end tag
                    FileDiff::Insert { .. } => (
                        f.diff.edits().iter().any(|(line, edit)| match edit {
                            LineEdit::Removed { .. } => b.start_line < *line && *line <= b.end_line,
                            _ => b.start_line < *line && *line < b.end_line,
                        }),
                        // the block's own start tag line was re-written
                        f.diff.edits().iter().any(|(line, edit)| {
                            *line == b.start_line && matches!(edit, LineEdit::Replaced { old } if is_tag_rewrite(old))
                        }),
                    ),
                }
            };
            if all || content_mod || tag_mod {
                j.selected.push(SelBlock {
                    file: f.path.clone(),
                    layout: b.clone(),
                    content_modified: content_mod,
                });
            }
        }
    }

    if a.list {
        let mut l: Vec<ExpListed> = j
            .selected
            .iter()
            .map(|s| ExpListed {
                file: s.file.clone(),
                name: s.layout.attr("name").unwrap_or("").to_string(),
                line: s.layout.start_line,
                attrs: s.layout.attrs.iter().cloned().collect(),
                is_content_modified: s.content_modified,
            })
            .collect();
        l.sort();
        j.expected = Expected::Listing(l);
        return j;
    }

    // ---- validation
    let mut diags: Vec<ExpDiag> = Vec::new();
    let mut failures: Vec<String> = Vec::new();
    let modified_named: BTreeSet<(String, String)> = j
        .selected
        .iter()
        .filter(|s| s.content_modified)
        .filter_map(|s| s.layout.attr("name").map(|n| (s.file.clone(), n.to_string())))
        .collect();
    let scripts: BTreeMap<&str, ScriptKind> =
        world.scripts.iter().map(|s| (s.path.as_str(), s.kind)).collect();

    for s in &j.selected {
        let b = &s.layout;
        let mut outcomes: Vec<(&str, RuleOutcome)> = Vec::new();
        if j.enabled.contains("keep-sorted") && b.attr("keep-sorted").is_some() {
            outcomes.push(("keep-sorted", eval_keep_sorted(b)));
        }
        if j.enabled.contains("keep-unique") && b.attr("keep-unique").is_some() {
            outcomes.push(("keep-unique", eval_keep_unique(b)));
        }
        if j.enabled.contains("line-pattern") && b.attr("line-pattern").is_some() {
            outcomes.push(("line-pattern", eval_line_pattern(b)));
        }
        if j.enabled.contains("line-count") && b.attr("line-count").is_some() {
            outcomes.push(("line-count", eval_line_count(b)));
        }
        if j.enabled.contains("affects") && s.content_modified {
            if let Some(v) = b.attr("affects") {
                match parse_affects(v) {
                    None => outcomes.push((
                        "affects",
                        RuleOutcome::Err(format!("affects reference without colon: {v:?}")),
                    )),
                    Some(refs) => {
                        let mut toks = Vec::new();
                        for (f, n) in refs {
                            let f = f.unwrap_or_else(|| s.file.clone());
                            if !modified_named.contains(&(f.clone(), n.clone())) {
                                toks.push(format!("{f}:{n}"));
                            }
                        }
                        outcomes.push((
                            "affects",
                            if toks.is_empty() {
                                RuleOutcome::Ok
                            } else {
                                RuleOutcome::Violations(toks)
                            },
                        ));
                    }
                }
            }
        }
        if j.enabled.contains("check-lua") {
            if let Some(path) = b.attr("check-lua") {
                let o = if trim(path).is_empty() {
                    RuleOutcome::Err("empty check-lua path".into())
                } else {
                    let content = match b.attr("check-lua-pattern") {
                        Some(p) => content_extract(p, &b.content),
                        None => Ok(trim_content(&b.content).to_string()),
                    };
                    match content {
                        Err(e) => RuleOutcome::Err(e),
                        Ok(content) => match scripts.get(path) {
                            None => RuleOutcome::Err(format!("script {path:?} does not exist")),
                            Some(k) if k.is_fault() => {
                                RuleOutcome::Err(format!("script {path:?} fails: {k:?}"))
                            }
                            Some(_) => {
                                j.lua_tokens.push(b.attr("x-tok").unwrap_or("").to_string());
                                if b.attr("x-ret") == Some("str") {
                                    RuleOutcome::Violations(vec![lua_payload(&s.file, b, &content)])
                                } else if b.attr("x-ret") == Some("empty") {
                                    // the empty string is a string: one diagnostic carrying it
                                    RuleOutcome::Violations(vec![String::new()])
                                } else {
                                    RuleOutcome::Ok
                                }
                            }
                        },
                    }
                };
                outcomes.push(("check-lua", o));
            }
        }
        if j.enabled.contains("check-ai") {
            if let Some(cond) = b.attr("check-ai") {
                let o = if trim(cond).is_empty() {
                    RuleOutcome::Err("empty check-ai condition".into())
                } else if world.env.ai_key.as_deref().unwrap_or("").is_empty() {
                    RuleOutcome::Err("missing API key".into())
                } else {
                    match b.attr("check-ai-pattern").map(|p| content_extract(p, &b.content)) {
                        Some(Err(e)) => RuleOutcome::Err(e),
                        _ if world.env.ai_refuse_connections => {
                            RuleOutcome::Err("connection refused".into())
                        }
                        _ => {
                            let tok = find_ai_token(cond).unwrap_or_default();
                            j.ai_tokens.push(tok.clone());
                            // retryable statuses do not decide: the reply that ends them does
                            let mut last = world.ai.get(&tok);
                            while let Some(AiReply::RetryThen { then, .. }) = last {
                                last = Some(then.as_ref());
                            }
                            match last {
                                None => RuleOutcome::Ok,
                                Some(AiReply::Text(t)) if is_ok_reply(t) => RuleOutcome::Ok,
                                Some(AiReply::Text(t)) => RuleOutcome::Violations(vec![t.clone()]),
                                Some(f) => RuleOutcome::Err(format!(
                                    "endpoint fault {} on {tok}",
                                    f.kind_name()
                                )),
                            }
                        }
                    }
                };
                outcomes.push(("check-ai", o));
            }
        }

        let mut has_violation = false;
        for (code, o) in outcomes {
            match o {
                RuleOutcome::Ok => {}
                RuleOutcome::Err(e) => {
                    failures.push(format!("{}:{} {code}: {e}", s.file, b.start_line))
                }
                RuleOutcome::Violations(toks) => {
                    has_violation = true;
                    let sev = severity_of(b).unwrap_or(0);
                    for t in toks {
                        diags.push(ExpDiag {
                            file: s.file.clone(),
                            code: code.to_string(),
                            block_line: b.start_line,
                            severity: sev,
                            token: t,
                        });
                    }
                }
            }
        }
        if has_violation {
            if let Err(e) = severity_of(b) {
                failures.push(format!("{}:{} {e}", s.file, b.start_line));
            }
        }
    }

    if !failures.is_empty() {
        j.expected = Expected::Failed(failures);
    } else {
        diags.sort();
        j.expected = Expected::Report(diags);
    }
    j
}

// ---------------------------------------------------------------------------------------------
// validity: the restricted language on which the model is the truth

/// Returns why a world lies outside the input language the model is defined on (None = inside).
/// Generators must only emit valid worlds and the minimiser must stay inside.
pub fn invalid_reason(world: &World) -> Option<String> {
    let mut names = BTreeSet::new();
    for f in &world.files {
        if !names.insert(&f.path) {
            return Some(format!("duplicate path {}", f.path));
        }
        if f.path.is_empty() || f.path.starts_with('/') || f.path.contains("//") {
            return Some(format!("bad path {:?}", f.path));
        }
    }
    let rendered = render_all(world, &BTreeSet::new());
    for (f, r) in world.files.iter().zip(&rendered) {
        let leader = comment_leader(&f.written_as());
        for b in &r.blocks {
            let mut seen = BTreeSet::new();
            for (k, v) in &b.attrs {
                if !seen.insert(k) {
                    return Some(format!("duplicate attribute {k}"));
                }
                // the tag grammar: any alphanumeric character (not just ASCII), `-`, `_`
                if k.is_empty() || !k.chars().all(|c| c.is_alphanumeric() || c == '-' || c == '_') {
                    return Some(format!("attribute name {k:?}"));
                }
                if (v.contains('"') && v.contains('\'')) || v.contains('\n') || v.contains('\r') {
                    return Some(format!("attribute value {v:?} cannot be written in a tag"));
                }
            }
            let own_lines = content_lines(&b.content);
            let has_sorting_rule = b.attr("keep-sorted").is_some()
                || b.attr("keep-unique").is_some()
                || b.attr("line-pattern").is_some();
            if b.has_children && has_sorting_rule {
                return Some("line rules on a block with nested blocks".into());
            }
            if !b.has_children {
                for l in &own_lines {
                    if l.trim_start().starts_with(leader) || l.contains("<block") || l.contains("</block")
                    {
                        return Some(format!("content line {l:?} looks like a comment or tag"));
                    }
                    if l.contains('\r') && (!l.ends_with('\r') || l.matches('\r').count() > 1 || !f.path.ends_with(".py")) {
                        return Some("CR other than one line-final CR in a .py file".into());
                    }
                }
            }
            let nonblank = own_lines.iter().filter(|l| !trim(l).is_empty()).count();
            // malformed regexes only on blocks with content
            for a in ["keep-sorted-pattern", "keep-unique", "line-pattern"] {
                if let Some(p) = b.attr(a) {
                    if INVALID_PATTERNS.contains(&p) && nonblank == 0 {
                        return Some(format!("uncompilable {a} on a block without content"));
                    }
                    let pool: &[&str] = if a == "line-pattern" { LINE_PATTERNS } else { LINE_KEY_PATTERNS };
                    if !p.is_empty() && !INVALID_PATTERNS.contains(&p) && !pool.contains(&p) {
                        return Some(format!("{a}={p:?} is outside the modelled pattern pool"));
                    }
                }
            }
            for a in ["check-lua-pattern", "check-ai-pattern"] {
                if let Some(p) = b.attr(a) {
                    if INVALID_PATTERNS.contains(&p) && nonblank == 0 {
                        return Some(format!("uncompilable {a} on a block without content"));
                    }
                    if !INVALID_PATTERNS.contains(&p) && !CONTENT_PATTERNS.contains(&p) {
                        return Some(format!("{a}={p:?} is outside the modelled pattern pool"));
                    }
                }
            }
            if let Some(v) = b.attr("keep-sorted") {
                // a direction with surrounding blanks is not trimmed (unlike the format): it is an
                // unknown direction; blank-only values mean the default
                let fmt = b.attr("keep-sorted-format").unwrap_or("");
                if fmt.eq_ignore_ascii_case("numeric") {
                    // keys must be plain numbers or plainly non-numeric, and a non-numeric key
                    // must be reached by a comparison (list otherwise ordered, >= 2 keys)
                    let pat = b.attr("keep-sorted-pattern").unwrap_or("");
                    let mut keys = Vec::new();
                    for l in &own_lines {
                        let k = if pat.is_empty() {
                            let t = trim(l);
                            if t.is_empty() { None } else { Some(t) }
                        } else if INVALID_PATTERNS.contains(&pat) {
                            None
                        } else {
                            line_key(pat, l).ok().flatten()
                        };
                        if let Some(k) = k {
                            keys.push(k);
                        }
                    }
                    let mut any_bad = false;
                    for k in &keys {
                        if simple_number(k).is_none() {
                            any_bad = true;
                            let first = k.bytes().next().unwrap_or(b'0');
                            if !(first == b'k' || first == b'q' || first == b'x') {
                                return Some(format!("numeric key {k:?} is neither plain number nor k*/q*/x* word"));
                            }
                        }
                    }
                    if any_bad {
                        if keys.len() < 2 {
                            return Some("non-numeric key that no comparison reaches".into());
                        }
                        let desc = v.eq_ignore_ascii_case("desc");
                        let nums: Vec<f64> = keys.iter().filter_map(|k| simple_number(k)).collect();
                        for w in nums.windows(2) {
                            let ord = w[0].total_cmp(&w[1]);
                            if (!desc && ord.is_gt()) || (desc && ord.is_lt()) {
                                return Some("non-numeric key in an unordered numeric list".into());
                            }
                        }
                    }
                }
            }
            if let Some(v) = b.attr("line-count") {
                if v.contains('+') {
                    return Some("line-count with '+'".into());
                }
            }
            if let Some(c) = b.attr("check-ai") {
                if !trim(c).is_empty() && find_ai_token(c).is_none() {
                    return Some("check-ai condition without token".into());
                }
            }
            if b.attr("check-lua").is_some_and(|p| !trim(p).is_empty())
                && b.attr("x-tok").is_none()
            {
                return Some("check-lua block without x-tok".into());
            }
        }
        if let FileDiff::Insert { renamed_from, .. } = &f.diff {
            if let Some(old) = renamed_from {
                if old.is_empty()
                    || old.starts_with('/')
                    || old.starts_with("b/")
                    || world.files.iter().any(|g| &g.path == old || g.path.starts_with(&format!("{old}/")) || old.starts_with(&format!("{}/", g.path)))
                {
                    return Some(format!("rename source {old:?} collides with the tree"));
                }
            }
            let edits = f.diff.edits();
            if renamed_from.is_some()
                && edits.iter().any(|(_, e)| matches!(e, LineEdit::Replaced { old } if is_tag_rewrite(old)))
            {
                return Some("re-written tag line in a renamed file (git may not see the rename)".into());
            }
            for w in edits.windows(2) {
                if w[1].0 < w[0].0 + 2 {
                    return Some("two edits on the same or on adjacent lines".into());
                }
            }
            // blockwatch places a removed line by its number in the OLD file; that is the place in
            // the new file only while nothing above it has shifted the numbering (an added or
            // removed line further up). Where the two numberings differ, which block "contains"
            // the removed line is not something the properties define: such diffs are not drawn.
            for (k, (_, e)) in edits.iter().enumerate() {
                if matches!(e, LineEdit::Removed { .. })
                    && edits[..k].iter().any(|(_, p)| !matches!(p, LineEdit::Replaced { .. }))
                {
                    return Some("removed line below an edit that shifts the line numbering".into());
                }
            }
            let mut olds = BTreeSet::new();
            for (l, edit) in &edits {
                let l = *l;
                if l == 0 || l > r.lines.len() {
                    return Some("insert line out of range".into());
                }
                let is_tag = |n: usize| r.blocks.iter().any(|b| b.is_start_tag_line(n) || b.end_line == n);
                if let LineEdit::Replaced { old } | LineEdit::Removed { old } = edit {
                    if r.lines.iter().any(|x| x == old) || old.contains('\n') || !olds.insert(old.clone()) {
                        // git would have more than one way to write the diff
                        return Some("old text of the changed line occurs in the file".into());
                    }
                }
                if let LineEdit::Removed { .. } = edit {
                    // reported in front of rendered line l: a content line or the end tag of the
                    // block the removed line was in, never a start tag
                    if r.blocks.iter().any(|b| b.is_start_tag_line(l)) {
                        return Some("removed line in front of a start tag".into());
                    }
                    if !r.blocks.iter().any(|b| b.start_line < l && l <= b.end_line) {
                        return Some("removed line outside every block".into());
                    }
                    if r.blocks.iter().any(|b| b.end_line + 1 == l) {
                        return Some("removed line right behind an end tag".into());
                    }
                    continue;
                }
                if let LineEdit::Replaced { old } = edit {
                    if is_tag_rewrite(old) {
                        // a re-written start tag (single-line tags only; no tilde in the new line)
                        if !r.blocks.iter().any(|b| b.start_line == l && b.tag_lines == 1) {
                            return Some("tag re-write on a line that is not a single-line start tag".into());
                        }
                        if r.lines[l - 1].contains('~') {
                            return Some("tag re-write whose new line contains a tilde".into());
                        }
                        if !r.lines[l - 1].is_ascii() {
                            // character indices of the change vs byte columns of the tag
                            return Some("tag re-write on a line with non-ASCII text".into());
                        }
                        if old.contains(DROPPED_ATTR) && with_dropped_attr(&r.lines[l - 1]).as_deref() != Some(old.as_str()) {
                            return Some("dropped-attribute edit whose old text is not the new line plus the attribute".into());
                        }
                        if r.blocks.iter().any(|b| b.start_line == l && b.end_line == l) {
                            return Some("tag re-write on a one-comment block".into());
                        }
                        continue;
                    }
                }
                if is_tag(l) {
                    return Some("inserted line is a tag line".into());
                }
                if r.lines.get(l) == r.lines.get(l - 1) || (l >= 2 && r.lines.get(l - 2) == r.lines.get(l - 1)) {
                    // git may report the insertion one line further down/up (same verdict, other
                    // text), so the level-A diff writer could not be validated against git
                    return Some("inserted line equals a neighbouring line".into());
                }
                if !r.blocks.iter().any(|b| b.start_line < l && l < b.end_line) {
                    return Some("inserted line outside every block".into());
                }
                for b in &r.blocks {
                    let inside = b.start_line < l && l < b.end_line;
                    if !inside && (l + 1 == b.start_line || l == b.end_line + 1) {
                        return Some("inserted line adjoins a tag of a block it is not in".into());
                    }
                }
            }
        }
    }
    // tokens unique
    let mut toks = BTreeSet::new();
    let mut ai_conditions: BTreeMap<String, String> = BTreeMap::new();
    for r in &rendered {
        for b in &r.blocks {
            if let Some(t) = b.attr("x-tok") {
                if !toks.insert(t.to_string()) {
                    return Some(format!("duplicate token {t}"));
                }
            }
            if let Some(c) = b.attr("check-ai") {
                if let Some(t) = find_ai_token(c) {
                    // the same prompt may be written on several blocks ("twins"): then the whole
                    // condition must be identical, so that one reply plan fits all of them
                    match ai_conditions.get(&t) {
                        Some(prev) if prev == c => {}
                        Some(_) => return Some(format!("token {t} used by two different conditions")),
                        None => {
                            if !toks.insert(t.clone()) {
                                return Some(format!("duplicate token {t}"));
                            }
                            ai_conditions.insert(t, c.to_string());
                        }
                    }
                }
            }
        }
    }
    None
}
