//! Level B: the same worlds through the real, guard-off release binary.
//!
//! The tree is materialised on tmpfs, the shipped `blockwatch` is spawned with argv, env, stdin,
//! cwd, CPU affinity and `TOKIO_WORKER_THREADS` from the world/plan, hash keys come from the
//! LD_PRELOAD shim, the AI endpoint is a scripted loopback TCP listener. Kernel thread
//! interleaving is *not* controlled here; the oracles only use schedule-invariant observables
//! (exit status, multiset of diagnostics), so that cannot raise an alarm on a correct tree.

use crate::exec::{self, Obs, Plan, RunResult};
use crate::lua;
use crate::model::{self, Expected};
use crate::net::{NetEvent, RecordedRequest};
use crate::oracle::{self, Mismatch, OracleCfg};
use crate::rng::Rng;
use crate::worker::{scratch_root, ChildReport};
use crate::world::*;
use std::collections::BTreeMap;
use std::io::{Read, Write};
use std::net::{TcpListener, TcpStream};
use std::path::{Path, PathBuf};
use std::process::{Command, Stdio};
use std::sync::atomic::{AtomicBool, AtomicU64, Ordering};
use std::sync::{Arc, Mutex};
use std::time::{Duration, Instant};

static COUNTER: AtomicU64 = AtomicU64::new(0);

fn build_dir() -> PathBuf {
    PathBuf::from(std::env::var("VERIF_BUILD_DIR").unwrap_or_else(|_| "/verif/build".into()))
}

/// Level B needs every script path to resolve from the cwd; worlds with scripts run from the root.
pub fn applicable(w: &World) -> bool {
    // retries sleep in real time here (0.25-0.75 s for the first one, 15 minutes until the library
    // gives up): only a single retry is affordable outside the simulated clock
    let affordable = w.ai.values().all(|r| match r {
        AiReply::RetryForever { .. } => false,
        AiReply::RetryThen { times, .. } => *times <= 1,
        _ => true,
    });
    affordable && build_dir().join("blockwatch").exists()
}

/// The start directory. Script paths in `check-lua` are relative to it: in worlds with scripts the
/// script files (and the scripts' call log) live below the start directory, wherever that is.
fn effective_cwd(w: &World) -> String {
    w.cwd.clone()
}

fn uses_lua(w: &World) -> bool {
    let mut any = false;
    for f in &w.files {
        for_each_block(&f.blocks, &mut |b| any |= b.has("check-lua"));
    }
    any
}

struct Endpoint {
    port: u16,
    stop: Arc<AtomicBool>,
    log: Arc<Mutex<Vec<NetEvent>>>,
    handle: Option<std::thread::JoinHandle<()>>,
}

fn read_http_request(s: &mut TcpStream) -> Option<(String, Vec<(String, String)>, Vec<u8>)> {
    let mut buf = Vec::new();
    let mut tmp = [0u8; 4096];
    let head_end = loop {
        if let Some(p) = buf.windows(4).position(|w| w == b"\r\n\r\n") {
            break p + 4;
        }
        let n = s.read(&mut tmp).ok()?;
        if n == 0 {
            return None;
        }
        buf.extend_from_slice(&tmp[..n]);
    };
    let head = String::from_utf8_lossy(&buf[..head_end]).to_string();
    let mut lines = head.split("\r\n");
    let rl = lines.next().unwrap_or("").to_string();
    let mut headers = Vec::new();
    for l in lines {
        if let Some((k, v)) = l.split_once(':') {
            headers.push((k.trim().to_ascii_lowercase(), v.trim().to_string()));
        }
    }
    let len: usize = headers
        .iter()
        .find(|(k, _)| k == "content-length")
        .and_then(|(_, v)| v.parse().ok())
        .unwrap_or(0);
    let mut body = buf[head_end..].to_vec();
    while body.len() < len {
        let n = s.read(&mut tmp).ok()?;
        if n == 0 {
            return None;
        }
        body.extend_from_slice(&tmp[..n]);
    }
    Some((rl, headers, body))
}

fn completion(model: &str, content: serde_json::Value) -> String {
    serde_json::json!({
        "id": "chatcmpl-sim", "object": "chat.completion", "created": 1_700_000_000u64, "model": model,
        "choices": [{"index": 0, "message": {"role": "assistant", "content": content}, "finish_reason": "stop"}]
    })
    .to_string()
}

fn response(status: u16, reason: &str, ctype: &str, body: &str) -> Vec<u8> {
    format!(
        "HTTP/1.1 {status} {reason}\r\ncontent-type: {ctype}\r\ncontent-length: {}\r\nconnection: close\r\n\r\n{body}",
        body.len()
    )
    .into_bytes()
}

fn start_endpoint(replies: BTreeMap<String, AiReply>) -> std::io::Result<Endpoint> {
    let listener = TcpListener::bind(("127.0.0.1", 0))?;
    listener.set_nonblocking(true)?;
    let port = listener.local_addr()?.port();
    let stop = Arc::new(AtomicBool::new(false));
    let log: Arc<Mutex<Vec<NetEvent>>> = Arc::new(Mutex::new(Vec::new()));
    let stop2 = stop.clone();
    let log2 = log.clone();
    let seen: Arc<Mutex<BTreeMap<String, u32>>> = Arc::new(Mutex::new(BTreeMap::new()));
    let handle = std::thread::spawn(move || {
        let mut conn = 0usize;
        let mut workers = Vec::new();
        while !stop2.load(Ordering::SeqCst) {
            match listener.accept() {
                Ok((mut s, _)) => {
                    conn += 1;
                    let c = conn;
                    let log = log2.clone();
                    let replies = replies.clone();
                    let seen = seen.clone();
                    workers.push(std::thread::spawn(move || {
                        let _ = s.set_nonblocking(false);
                        let _ = s.set_read_timeout(Some(Duration::from_secs(120)));
                        let Some((rl, headers, body)) = read_http_request(&mut s) else {
                            return;
                        };
                        let mut rr = RecordedRequest::default();
                        let mut parts = rl.split(' ');
                        rr.method = parts.next().unwrap_or("").into();
                        rr.path = parts.next().unwrap_or("").into();
                        for (k, v) in &headers {
                            if k == "authorization" {
                                rr.authorization = v.clone();
                            }
                        }
                        if let Ok(v) = serde_json::from_slice::<serde_json::Value>(&body) {
                            rr.model = v["model"].as_str().unwrap_or("").into();
                            if let Some(msgs) = v["messages"].as_array() {
                                rr.n_messages = msgs.len();
                                for m in msgs {
                                    let c = m["content"].as_str().unwrap_or("");
                                    match m["role"].as_str() {
                                        Some("user") => rr.user = c.into(),
                                        Some("system") => rr.system = c.into(),
                                        _ => {}
                                    }
                                }
                            }
                        }
                        rr.token = model::find_ai_token(&rr.user).unwrap_or_default();
                        let token = rr.token.clone();
                        let mdl = rr.model.clone();
                        log.lock().unwrap().push(NetEvent::Request {
                            conn: c,
                            at_ms: 0,
                            request: Box::new(rr),
                        });
                        let nth = {
                            let mut seen = seen.lock().unwrap();
                            let n = seen.entry(token.clone()).or_insert(0);
                            *n += 1;
                            *n
                        };
                        let planned = replies.get(&token).cloned().unwrap_or(AiReply::Text("OK".into()));
                        let (reply, retryable) = match planned {
                            AiReply::RetryThen { code, times, then } => {
                                if nth <= times { (AiReply::Text(String::new()), Some(code)) } else { (*then, None) }
                            }
                            AiReply::RetryForever { code } => (AiReply::Text(String::new()), Some(code)),
                            other => (other, None),
                        };
                        let good = |t: &str| response(200, "OK", "application/json", &completion(&mdl, serde_json::Value::String(t.into())));
                        let (bytes, cut, reset) = match &reply {
                            _ if retryable.is_some() => (crate::net::retryable_response(retryable.unwrap(), nth, false), None, false),
                            AiReply::QuotaExceeded => (
                                response(429, "Too Many Requests", "application/json", &serde_json::json!({"error": {"message": "simulated: quota exceeded", "type": "insufficient_quota", "param": null, "code": "insufficient_quota"}}).to_string()),
                                None,
                                false,
                            ),
                            AiReply::RetryThen { .. } | AiReply::RetryForever { .. } => unreachable!(),
                            AiReply::Text(t) => (good(t), None, false),
                            AiReply::Status { code, json_body } => {
                                let (ct, b) = if *json_body {
                                    ("application/json", serde_json::json!({"error": {"message": format!("simulated {code}"), "type": "invalid_request_error", "param": null, "code": null}}).to_string())
                                } else {
                                    ("text/plain", format!("status {code} (simulated)"))
                                };
                                (response(*code, "Error", ct, &b), None, false)
                            }
                            AiReply::InvalidJson => (response(200, "OK", "application/json", "{\"choices\": [ this is not json"), None, false),
                            AiReply::NoChoices => (response(200, "OK", "application/json", &serde_json::json!({"id":"chatcmpl-sim","object":"chat.completion","created":1_700_000_000u64,"model":mdl,"choices":[]}).to_string()), None, false),
                            AiReply::NullContent => (response(200, "OK", "application/json", &completion(&mdl, serde_json::Value::Null)), None, false),
                            AiReply::EmptyBody => (response(200, "OK", "application/json", ""), None, false),
                            AiReply::CloseAfter { after } => {
                                let b = good("OK");
                                let n = (*after).min(b.len() - 1);
                                (b, Some(n), false)
                            }
                            AiReply::ResetAfter { after } => {
                                let b = good("OK");
                                let n = (*after).min(b.len() - 1);
                                (b, Some(n), true)
                            }
                        };
                        let total = cut.unwrap_or(bytes.len());
                        let _ = s.write_all(&bytes[..total]);
                        let _ = s.flush();
                        if reset {
                            // SO_LINGER 0 => RST on close
                            use std::os::fd::AsRawFd;
                            let l = libc::linger { l_onoff: 1, l_linger: 0 };
                            unsafe {
                                libc::setsockopt(
                                    s.as_raw_fd(),
                                    libc::SOL_SOCKET,
                                    libc::SO_LINGER,
                                    &l as *const _ as *const libc::c_void,
                                    std::mem::size_of::<libc::linger>() as u32,
                                );
                            }
                        } else {
                            let _ = s.shutdown(std::net::Shutdown::Write);
                            // drain until the client closes so that a close is not turned into RST
                            let mut sink = [0u8; 256];
                            let _ = s.set_read_timeout(Some(Duration::from_millis(200)));
                            while let Ok(n) = s.read(&mut sink) {
                                if n == 0 {
                                    break;
                                }
                            }
                        }
                        log.lock().unwrap().push(NetEvent::Reply {
                            conn: c,
                            at_ms: 0,
                            token,
                            kind: match retryable {
                                Some(code) => format!("retryable_{code}"),
                                None => reply.kind_name().into(),
                            },
                            bytes: total,
                        });
                    }));
                }
                Err(ref e) if e.kind() == std::io::ErrorKind::WouldBlock => {
                    std::thread::sleep(Duration::from_millis(1));
                }
                Err(_) => break,
            }
        }
        for w in workers {
            let _ = w.join();
        }
    });
    Ok(Endpoint {
        port,
        stop,
        log,
        handle: Some(handle),
    })
}

impl Drop for Endpoint {
    fn drop(&mut self) {
        self.stop.store(true, Ordering::SeqCst);
        if let Some(h) = self.handle.take() {
            let _ = h.join();
        }
    }
}

/// A loopback port that refuses connections *and stays reserved*: the socket is bound but never
/// listens, so connect() gets ECONNREFUSED while no other process (a concurrently running
/// worker's endpoint) can be handed the same ephemeral port. Binding, reading the port and
/// closing would leave a window in which another worker's listener receives this run's request.
struct RefusingPort {
    fd: i32,
    port: u16,
}

impl RefusingPort {
    fn new() -> Option<RefusingPort> {
        // SAFETY: plain socket calls on a fresh fd.
        unsafe {
            let fd = libc::socket(libc::AF_INET, libc::SOCK_STREAM | libc::SOCK_CLOEXEC, 0);
            if fd < 0 {
                return None;
            }
            let mut addr: libc::sockaddr_in = std::mem::zeroed();
            addr.sin_family = libc::AF_INET as libc::sa_family_t;
            addr.sin_port = 0;
            addr.sin_addr = libc::in_addr {
                s_addr: u32::from_ne_bytes([127, 0, 0, 1]),
            };
            if libc::bind(
                fd,
                &addr as *const _ as *const libc::sockaddr,
                std::mem::size_of::<libc::sockaddr_in>() as u32,
            ) != 0
            {
                libc::close(fd);
                return None;
            }
            let mut out: libc::sockaddr_in = std::mem::zeroed();
            let mut len = std::mem::size_of::<libc::sockaddr_in>() as u32;
            if libc::getsockname(fd, &mut out as *mut _ as *mut libc::sockaddr, &mut len) != 0 {
                libc::close(fd);
                return None;
            }
            Some(RefusingPort {
                fd,
                port: u16::from_be(out.sin_port),
            })
        }
    }
}

impl Drop for RefusingPort {
    fn drop(&mut self) {
        unsafe { libc::close(self.fd) };
    }
}

fn git(root: &Path, args: &[&str]) -> Option<String> {
    let out = Command::new("git")
        .current_dir(root)
        .args(["-c", "user.name=sim", "-c", "user.email=sim@example.invalid", "-c", "core.quotepath=off", "-c", "init.defaultBranch=main", "-c", "advice.addEmptyPathspec=false"])
        .args(args)
        .env("GIT_CONFIG_NOSYSTEM", "1")
        .env("HOME", root)
        .output()
        .ok()?;
    if !out.status.success() {
        return None;
    }
    Some(String::from_utf8_lossy(&out.stdout).to_string())
}

fn write_file(root: &Path, rel: &str, text: &str) {
    let p = root.join(rel);
    if let Some(d) = p.parent() {
        let _ = std::fs::create_dir_all(d);
    }
    let _ = std::fs::write(p, text);
}

/// Strips the lines of a diff section that legitimately differ between git and the level-A diff
/// writer (`index` hashes).
fn normalise_diff(d: &str) -> Vec<String> {
    let mut sections: Vec<String> = Vec::new();
    let mut cur = String::new();
    for l in d.lines() {
        if l.starts_with("diff --git ") && !cur.is_empty() {
            sections.push(std::mem::take(&mut cur));
        }
        if l.starts_with("index ") || l.starts_with("similarity index ") {
            continue;
        }
        if l.starts_with("@@ ") {
            // git appends the enclosing "function" line after the second @@; not part of the hunk
            if let Some(end) = l[3..].find(" @@") {
                cur.push_str(&l[..3 + end + 3]);
                cur.push('\n');
                continue;
            }
        }
        cur.push_str(l);
        cur.push('\n');
    }
    if !cur.is_empty() {
        sections.push(cur);
    }
    sections.sort();
    sections
}

pub fn run_level_b(
    world: &World,
    plan: &Plan,
    matrix: Option<&mut BTreeMap<String, u64>>,
) -> ChildReport {
    let j = model::judge(world);
    let n = COUNTER.fetch_add(1, Ordering::SeqCst);
    let base = scratch_root().join(format!("b{n}"));
    // now and then the repository is a Mercurial checkout nested in a Git one: its root is the
    // NEAREST ancestor with a `.git` or `.hg` directory (never together with a git-built diff,
    // which needs %4 == 0, nor with ignore rules, whose reach the outer repository could change)
    let nested_hg = plan.create_seed % 7 == 3 && plan.create_seed % 4 != 0 && world.gitignore.is_empty();
    let root = if nested_hg { base.join("outer").join("nested") } else { base.join("repo") };
    let marker = if nested_hg { ".hg" } else { ".git" };
    let _ = std::fs::remove_dir_all(&base);
    std::fs::create_dir_all(&root).expect("create level-B root");
    if nested_hg {
        std::fs::create_dir_all(base.join("outer").join(".git")).expect("mkdir outer .git");
        write_file(&base.join("outer"), "outer.py", "h0=0\n# <block keep-sorted=\"asc\">\nzz\naa\n# </block>\n");
    }
    let mut extra: Vec<Mismatch> = Vec::new();
    let mut harness_notes: Vec<String> = Vec::new();
    let mut foreign_requests = 0usize;
    let mut symlinks = 0usize;
    let mut git_exclude_used = false;
    let mut decoy_git_file = false;

    // ---- the tree (creation order from the plan)
    let n_renames = world
        .files
        .iter()
        .filter(|f| matches!(&f.diff, FileDiff::Insert { renamed_from: Some(_), .. }))
        .count();
    let add_or_del = world.files.iter().any(|f| matches!(f.diff, FileDiff::Added | FileDiff::Deleted));
    // with a rename in the diff, git's rename detection must have exactly one candidate pair
    let rename_ok = n_renames == 0 || (n_renames == 1 && !add_or_del);
    let use_git = plan.create_seed % 4 == 0 && !world.is_terminal() && rename_ok;
    let order = exec::perm_from_seed(plan.create_seed | 1, world.files.len());
    let rendered = &j.rendered;
    let mut git_diff: Option<String> = None;
    if use_git {
        // base state, commit, new state, `git diff -U0`
        let ok = (|| -> Option<()> {
            git(&root, &["init", "-q"])?;
            write_file(&root, ".keep", "keep\n");
            for &i in &order {
                let f = &world.files[i];
                match &f.diff {
                    FileDiff::None | FileDiff::Deleted => write_file(&root, &f.path, &rendered[i].text),
                    FileDiff::Insert { renamed_from, .. } => {
                        let mut lines = rendered[i].lines.clone();
                        // undo the edits, last line first
                        for (line, edit) in f.diff.edits().into_iter().rev() {
                            match edit {
                                LineEdit::Inserted => {
                                    lines.remove(line - 1);
                                }
                                LineEdit::Replaced { old } => lines[line - 1] = old,
                                LineEdit::Removed { old } => lines.insert(line - 1, old),
                            }
                        }
                        let base_path = renamed_from.as_deref().unwrap_or(&f.path);
                        let nl = if rendered[i].no_final_newline { "" } else { "\n" };
                        write_file(&root, base_path, &(lines.join("\n") + nl));
                    }
                    FileDiff::Added => {
                        if f.was_symlink {
                            let link = root.join(&f.path);
                            if let Some(d) = link.parent() {
                                let _ = std::fs::create_dir_all(d);
                            }
                            let _ = std::os::unix::fs::symlink(OLD_LINK_TARGET, &link);
                        }
                    }
                }
            }
            git(&root, &["add", "-A", "-f"])?;
            git(&root, &["commit", "-q", "-m", "base"])?;
            for &i in &order {
                let f = &world.files[i];
                match &f.diff {
                    FileDiff::Added => {
                        if f.was_symlink {
                            let _ = std::fs::remove_file(root.join(&f.path));
                        }
                        write_file(&root, &f.path, &rendered[i].text)
                    }
                    FileDiff::Insert { renamed_from, .. } => {
                        if let Some(old) = renamed_from {
                            let _ = std::fs::remove_file(root.join(old));
                        }
                        write_file(&root, &f.path, &rendered[i].text)
                    }
                    FileDiff::Deleted => {
                        let _ = std::fs::remove_file(root.join(&f.path));
                    }
                    FileDiff::None => {}
                }
            }
            git(&root, &["add", "-N", "-f", "."])?;
            let rename_flag = if n_renames > 0 { "-M20%" } else { "--no-renames" };
            let unified = format!("-U{}", world.diff_context);
            git_diff = git(&root, &["diff", "HEAD", &unified, "--no-color", "--no-ext-diff", rename_flag]);
            git_diff.as_ref()?;
            Some(())
        })();
        if ok.is_none() {
            harness_notes.push("git could not produce the diff; fell back to the level-A writer".into());
            git_diff = None;
        }
        let _ = std::fs::remove_file(root.join(".keep"));
    } else {
        std::fs::create_dir_all(root.join(marker)).expect("mkdir repository marker");
    }
    if !use_git || git_diff.is_none() {
        if !root.join(".git").is_dir() && !root.join(marker).is_dir() {
            std::fs::create_dir_all(root.join(marker)).expect("mkdir repository marker");
        }
        for &i in &order {
            let f = &world.files[i];
            if matches!(f.diff, FileDiff::Deleted) {
                continue;
            }
            // how a file is stored is not part of the input: now and then a file the diff does not
            // mention is a symbolic link to a regular file kept in a hidden directory
            let as_link = matches!(f.diff, FileDiff::None)
                && Rng::new(plan.create_seed ^ (i as u64).wrapping_mul(0x9e37_79b9)).chance(1, 8);
            if as_link {
                let store = format!(".bwstore/f{i}");
                write_file(&root, &store, &rendered[i].text);
                let link = root.join(&f.path);
                if let Some(d) = link.parent() {
                    let _ = std::fs::create_dir_all(d);
                }
                let depth = f.path.matches('/').count();
                let target = format!("{}{}", "../".repeat(depth), store);
                if std::os::unix::fs::symlink(&target, &link).is_ok() {
                    symlinks += 1;
                    continue;
                }
            }
            write_file(&root, &f.path, &rendered[i].text);
        }
    }
    // hard links: a second NAME for a file's inode, under a name blockwatch has no grammar for
    // (`*.bwdat`: walked, then skipped by name). The real name stays in scope whichever of the two
    // the directory walk meets first.
    let mut hard_links = 0usize;
    // a file that cannot be read as UTF-8 is a read error, never a file without blocks: in worlds
    // the model expects to FAIL anyway, now and then every file the diff does not mention ends in
    // a stray Latin-1 byte (the run must still fail, whichever file the malformed rule sits in)
    let mut latin1_files = 0usize;
    {
        let mut r = Rng::new(plan.create_seed ^ 0x11ab_57ee);
        let stray = matches!(j.expected, Expected::Failed(_)) && r.chance(1, 6);
        for (i, f) in world.files.iter().enumerate() {
            if !matches!(f.diff, FileDiff::None) {
                continue;
            }
            let p = root.join(&f.path);
            let Ok(md) = std::fs::symlink_metadata(&p) else { continue };
            if !md.file_type().is_file() {
                continue;
            }
            if stray {
                if let Ok(mut bytes) = std::fs::read(&p) {
                    bytes.extend_from_slice(b"\n\xe9t\xe9\n");
                    if std::fs::write(&p, bytes).is_ok() {
                        latin1_files += 1;
                    }
                }
            }
            if r.chance(1, 6) {
                let twin = match r.below(3) {
                    0 => format!("0-twin{i}.bwdat"),
                    1 => format!("zz-twin{i}.bwdat"),
                    _ => match f.path.rsplit_once('/') {
                        Some((d, _)) => format!("{d}/0-twin{i}.bwdat"),
                        None => format!("m-twin{i}.bwdat"),
                    },
                };
                if !world.files.iter().any(|o| o.path == twin) && std::fs::hard_link(&p, root.join(&twin)).is_ok() {
                    hard_links += 1;
                }
            }
        }
    }
    // a symbolic link to a DIRECTORY is not a file of the repository and nothing behind it is in
    // scope: now and then the tree has a link to a hidden directory holding a file full of
    // violations (also an unbalanced one), and a link back to the root itself (a loop)
    let mut dir_links = 0usize;
    {
        let mut r = Rng::new(plan.create_seed ^ 0x5eed_d1f5);
        let free = |n: &str| !world.files.iter().any(|f| f.path == n || f.path.starts_with(&format!("{n}/")));
        if r.chance(1, 5) && free("zz-linkdir") && free(".bwlinked") {
            write_file(
                &root,
                ".bwlinked/decoy.py",
                "# <block name=\"decoy\" keep-sorted=\"asc\" keep-unique line-count=\"<1\">\nb\na\na\n# </block>\n",
            );
            if r.chance(1, 2) {
                write_file(&root, ".bwlinked/sub/open.py", "# <block name=\"never-closed\">\nx\n");
            }
            if std::os::unix::fs::symlink(".bwlinked", root.join("zz-linkdir")).is_ok() {
                dir_links += 1;
            }
        }
        if r.chance(1, 12) && free("zz-loop") && std::os::unix::fs::symlink(".", root.join("zz-loop")).is_ok() {
            dir_links += 1;
        }
    }
    if !world.gitignore.is_empty() {
        // ignore rules live in a checked-in .gitignore or in the clone-local .git/info/exclude
        let local_exclude = plan.create_seed % 3 == 1;
        let target = if local_exclude { ".git/info/exclude" } else { ".gitignore" };
        write_file(&root, target, &(world.gitignore.join("\n") + "\n"));
        git_exclude_used = local_exclude;
    }
    let script_base = if world.cwd.is_empty() { root.clone() } else { root.join(&world.cwd) };
    for s in &world.scripts {
        let _ = lua::write_script(&script_base, s, &BTreeMap::new(), &plan.lua_busy, 0);
    }
    if uses_lua(world) {
        let _ = std::fs::create_dir_all(script_base.join("lua"));
    }

    // ---- stdin
    let diff_files: Vec<usize> = (0..world.files.len())
        .filter(|&i| !matches!(world.files[i].diff, FileDiff::None))
        .collect();
    let dperm = exec::perm_from_seed(plan.diff_seed, diff_files.len());
    let diff_order: Vec<usize> = dperm.iter().map(|&i| diff_files[i]).collect();
    let own_diff = world.stdin_text(rendered, &diff_order);
    let stdin_text = match (&git_diff, &own_diff) {
        (Some(g), Some(own)) => {
            // validate the level-A diff writer against git: same sections modulo index lines
            if normalise_diff(g) != normalise_diff(own) {
                harness_notes.push(format!(
                    "DIFF-WRITER-MISMATCH git:\n{g}\nown:\n{own}"
                ));
            }
            // permute git's own sections
            let mut sections: Vec<String> = Vec::new();
            let mut cur = String::new();
            for l in g.split_inclusive('\n') {
                if l.starts_with("diff --git ") && !cur.is_empty() {
                    sections.push(std::mem::take(&mut cur));
                }
                cur.push_str(l);
            }
            if !cur.is_empty() {
                sections.push(cur);
            }
            Rng::new(plan.diff_seed | 1).shuffle(&mut sections);
            Some(sections.concat())
        }
        (_, own) => own.clone(),
    }
    .map(|t| world.with_noise(t, plan.diff_seed));

    // ---- endpoint
    let endpoint = if world.env.ai_refuse_connections {
        None
    } else {
        start_endpoint(world.ai.clone()).ok()
    };
    let refusing = if endpoint.is_none() { RefusingPort::new() } else { None };
    let port = match (&endpoint, &refusing) {
        (Some(e), _) => e.port,
        (None, Some(r)) => r.port,
        (None, None) => {
            harness_notes.push("could not reserve a refusing port".into());
            1
        }
    };

    // a `.git` *file* (as in a submodule or linked worktree) in the start directory is not a
    // repository root; only done without ignore rules, whose reach such a boundary could change
    {
        let cwd_rel = effective_cwd(world);
        if !cwd_rel.is_empty() && world.gitignore.is_empty() && plan.create_seed % 5 < 2 {
            write_file(&root, &format!("{cwd_rel}/.git"), "gitdir: /nonexistent/modules/decoy\n");
            decoy_git_file = true;
        }
    }
    // ---- the process
    let cwd_rel = effective_cwd(world);
    let cwd = if cwd_rel.is_empty() { root.clone() } else { root.join(&cwd_rel) };
    let bin = build_dir().join("blockwatch");
    let cores = plan.cores.clamp(1, 16);
    let cpu_list = if cores >= 16 { "0-15".to_string() } else { format!("0-{}", cores - 1) };
    let mut cmd = Command::new("taskset");
    cmd.arg("-c").arg(&cpu_list).arg(&bin);
    cmd.args(world.args.argv());
    cmd.current_dir(&cwd);
    cmd.env_clear();
    cmd.env("PATH", "/usr/bin:/bin");
    cmd.env("LD_PRELOAD", build_dir().join("libbwshim.so"));
    cmd.env("VERIF_HASH_SEED", plan.hash_seed.to_string());
    cmd.env("TOKIO_WORKER_THREADS", plan.workers.max(1).to_string());
    for (k, v) in exec::env_for(world, &format!("http://127.0.0.1:{port}")) {
        if let Some(v) = v {
            cmd.env(k, v);
        }
    }
    if world.is_terminal() {
        cmd.env("BLOCKWATCH_TERMINAL_MODE", "1");
        cmd.stdin(Stdio::null());
    } else {
        cmd.stdin(Stdio::piped());
    }
    cmd.stdout(Stdio::piped()).stderr(Stdio::piped());
    let started = Instant::now();
    let mut rr = RunResult::default();
    let obs: Obs;
    let mut stdout_s = String::new();
    let mut stderr_s = String::new();
    let mut exit_code: Option<i32> = None;
    let mut stdin_chunks = 0usize;
    match cmd.spawn() {
        Err(e) => {
            obs = Obs::Crashed(format!("HARNESS: cannot spawn blockwatch: {e}"));
            harness_notes.push(format!("spawn failed: {e}"));
        }
        Ok(mut child) => {
            if let Some(mut si) = child.stdin.take() {
                let text = stdin_text.clone().unwrap_or_default();
                // a slow peer on the pipe: in a quarter of the runs the diff trickles in, in a few
                // chunks cut at arbitrary bytes (inside lines and UTF-8 sequences) with short pauses
                let mut srng = crate::rng::Rng::new(crate::rng::mix(plan.diff_seed, "stdin-chunks"));
                let mut cuts: Vec<usize> = Vec::new();
                if text.len() > 1 && srng.chance(1, 4) {
                    let n = 1 + srng.below(6);
                    for _ in 0..n {
                        cuts.push(1 + srng.below(text.len() - 1));
                    }
                    if srng.chance(1, 3) {
                        cuts.push(1); // a first read of a single byte
                    }
                    cuts.sort();
                    cuts.dedup();
                }
                stdin_chunks = cuts.len() + 1;
                let pauses: Vec<u64> = cuts.iter().map(|_| 200 + srng.below(1800) as u64).collect();
                std::thread::spawn(move || {
                    let b = text.as_bytes();
                    let mut at = 0;
                    for (c, us) in cuts.iter().zip(&pauses) {
                        if si.write_all(&b[at..*c]).is_err() || si.flush().is_err() {
                            return;
                        }
                        at = *c;
                        std::thread::sleep(Duration::from_micros(*us));
                    }
                    let _ = si.write_all(&b[at..]);
                });
            }
            let mut so = child.stdout.take().unwrap();
            let mut se = child.stderr.take().unwrap();
            let t_out = std::thread::spawn(move || {
                let mut s = Vec::new();
                let _ = so.read_to_end(&mut s);
                s
            });
            let t_err = std::thread::spawn(move || {
                let mut s = Vec::new();
                let _ = se.read_to_end(&mut s);
                s
            });
            let mut status = None;
            while started.elapsed() < Duration::from_secs(20) * crate::worker::watchdog_scale() {
                match child.try_wait() {
                    Ok(Some(s)) => {
                        status = Some(s);
                        break;
                    }
                    Ok(None) => std::thread::sleep(Duration::from_millis(2)),
                    Err(_) => break,
                }
            }
            if status.is_none() {
                let _ = child.kill();
                let _ = child.wait();
            }
            stdout_s = String::from_utf8_lossy(&t_out.join().unwrap_or_default()).to_string();
            stderr_s = String::from_utf8_lossy(&t_err.join().unwrap_or_default()).to_string();
            obs = match status {
                None => Obs::Hang,
                Some(s) => {
                    use std::os::unix::process::ExitStatusExt;
                    if let Some(sig) = s.signal() {
                        Obs::Crashed(format!("killed by signal {sig}; stderr: {}", tail(&stderr_s)))
                    } else {
                        let code = s.code().unwrap_or(-1);
                        exit_code = Some(code);
                        classify(world, code, &stdout_s, &stderr_s, &mut extra)
                    }
                }
            };
        }
    }
    drop(refusing);
    if let Some(e) = endpoint {
        let log = e.log.clone();
        drop(e);
        rr.net_log = log.lock().unwrap().clone();
    }
    // Loopback is shared with whatever else runs on the machine: a request that carries none of
    // this world's tokens comes from some other process (e.g. another check's "refused" scenario
    // that was handed a recycled port number) and is not an observation of this run. Level A,
    // where the transport is in-process, has no such noise and keeps the strict monitor.
    {
        let mut own: std::collections::BTreeSet<String> = std::collections::BTreeSet::new();
        for f in &world.files {
            for_each_block(&f.blocks, &mut |b| {
                if let Some(t) = b.attr("check-ai").and_then(model::find_ai_token) {
                    own.insert(t);
                }
            });
        }
        let before = rr.net_log.len();
        rr.net_log.retain(|e| match e {
            NetEvent::Request { request, .. } => own.contains(&request.token),
            NetEvent::Reply { token, .. } => own.contains(token),
            _ => true,
        });
        if rr.net_log.len() != before {
            foreign_requests = before - rr.net_log.len();
        }
    }
    rr.lua_calls = lua::read_call_log(&if world.cwd.is_empty() { root.clone() } else { root.join(&world.cwd) });
    rr.obs = Some(obs.clone());

    let mut mismatches = oracle::check(world, &j, &rr, &OracleCfg { level_b: true });
    // exit status must follow the model exactly
    if let (Some(code), Some(want)) = (exit_code, j.expected.exit_code()) {
        if matches!(obs, Obs::Report(_) | Obs::Listing(_)) && code != want {
            mismatches.push(Mismatch {
                clause: "exit-status".into(),
                detail: format!("exit status {code}, expected {want}"),
            });
        }
    }
    if matches!(j.expected, Expected::Failed(_) | Expected::Rejected(_)) {
        if let Some(code) = exit_code {
            if code == 0 {
                mismatches.push(Mismatch {
                    clause: "exit-status".into(),
                    detail: "run must fail but exited 0".into(),
                });
            }
        }
    }
    mismatches.extend(extra);
    if let Some(m) = matrix {
        *m.entry(format!(
            "cores={} workers={} cwd={} git_diff={}",
            cores,
            plan.workers.max(1),
            if cwd_rel.is_empty() { "root" } else { "subdir" },
            git_diff.is_some()
        ))
        .or_default() += 1;
        if symlinks > 0 {
            *m.entry("runs_with_symlinked_files".to_string()).or_default() += 1;
        }
        if dir_links > 0 {
            *m.entry("runs_with_symlinked_directories".to_string()).or_default() += 1;
        }
        if hard_links > 0 {
            *m.entry("runs_with_hard_linked_twins".to_string()).or_default() += 1;
        }
        if latin1_files > 0 {
            *m.entry("runs_with_non_utf8_source_files".to_string()).or_default() += 1;
        }
        if git_exclude_used {
            *m.entry("runs_with_rules_in_git_info_exclude".to_string()).or_default() += 1;
        }
        if decoy_git_file {
            *m.entry("runs_with_git_file_in_start_dir".to_string()).or_default() += 1;
        }
        if nested_hg {
            *m.entry("runs_in_a_mercurial_checkout_nested_in_a_git_one".to_string()).or_default() += 1;
        }
        if stdin_chunks > 1 {
            *m.entry("runs_with_diff_trickling_in_on_stdin".to_string()).or_default() += 1;
        }
    }
    let mut v = serde_json::to_value(&rr).unwrap_or_default();
    v["level_b"] = serde_json::json!({
        "exit_code": exit_code, "stdout": tail(&stdout_s), "stderr": tail(&stderr_s),
        "cwd": cwd_rel, "cores": cores, "workers": plan.workers.max(1), "git_diff": git_diff.is_some(),
        "stdin": stdin_text, "stdin_chunks": stdin_chunks, "harness_notes": harness_notes.clone(), "foreign_requests_ignored": foreign_requests, "symlinked_files": symlinks, "ignore_rules_in_git_info_exclude": git_exclude_used, "decoy_git_file_in_start_dir": decoy_git_file,
    });
    let _ = std::fs::remove_dir_all(&base);
    ChildReport {
        obs_kind: obs.kind().to_string(),
        expected_kind: j.expected.kind().to_string(),
        rr: v,
        mismatches,
        harness_notes,
    }
}

fn tail(s: &str) -> String {
    if s.len() > 4000 {
        let mut start = s.len() - 4000;
        while !s.is_char_boundary(start) {
            start += 1;
        }
        format!("…{}", &s[start..])
    } else {
        s.to_string()
    }
}

fn classify(world: &World, code: i32, stdout: &str, stderr: &str, extra: &mut Vec<Mismatch>) -> Obs {
    if code == 101 || stderr.contains("panicked at") {
        return Obs::Panicked(tail(stderr));
    }
    if code == 134 || code == 139 {
        return Obs::Crashed(format!("exit {code}: {}", tail(stderr)));
    }
    if code == 2 && stderr.contains("Usage:") {
        return Obs::Rejected(tail(stderr));
    }
    if world.args.list && code == 0 {
        return match serde_json::from_str::<serde_json::Value>(stdout) {
            Ok(v) if v.is_object() => {
                Obs::Listing(exec::listing_from_json(&v))
            }
            _ => Obs::Failed(format!("list exited 0 but stdout is not one JSON object: {}", tail(stdout))),
        };
    }
    if code == 0 && stderr.trim().is_empty() {
        if !stdout.trim().is_empty() && !world.args.list {
            extra.push(Mismatch {
                clause: "stdout-noise".into(),
                detail: format!("validation run wrote to stdout: {}", tail(stdout)),
            });
        }
        return Obs::Report(vec![]);
    }
    // one JSON object on stderr?
    if let Ok(v) = serde_json::from_str::<serde_json::Value>(stderr) {
        if let Some(obj) = v.as_object() {
            let mut diags = Vec::new();
            for (file, ds) in obj {
                for d in ds.as_array().map(|a| a.as_slice()).unwrap_or(&[]) {
                    diags.push(exec::diag_from_json(file, d));
                }
            }
            diags.sort();
            if diags.is_empty() {
                extra.push(Mismatch {
                    clause: "empty-report-printed".into(),
                    detail: "a JSON report without diagnostics was printed".into(),
                });
            }
            return Obs::Report(diags);
        }
    }
    if code != 0 {
        if stderr.trim().is_empty() {
            extra.push(Mismatch {
                clause: "silent-failure".into(),
                detail: format!("exit {code} without any explanation on stderr"),
            });
        }
        return Obs::Failed(tail(stderr));
    }
    Obs::Failed(format!("exit 0 with unparseable stderr: {}", tail(stderr)))
}
