//! World generators. Everything is drawn from the `Rng` passed in; nothing else is random.
//!
//! Generators only emit worlds inside the restricted input language of `model::invalid_reason`.

use crate::exec::Plan;
use crate::model::{self, Expected};
use crate::net::{AiTiming, NetPlan};
use crate::rng::Rng;
use crate::world::*;

pub const WORDS: &[&str] = &[
    "alpha", "beta", "gamma", "delta", "kappa", "omega", "zeta", "eta", "theta", "iota", "lemma",
    "sigma",
];
pub const NUMBERS: &[&str] = &["2", "10", "9.5", "-3", "0", "7", "100", "3.25", "-10", "42"];
// (`py`, `js`: directory names that are also grammar keys)
pub const DIRS: &[&str] = &["a", "b", "src", "docs", "my dir", "v1.2", "lib", "pkg", "v1..v2", "py", "js"];
pub const STEMS: &[&str] = &[
    "main", "util", "x", "mod", "data", "conf", "app", "b", "my file", "v2.conf", "a", "[id]", "{slug}", "odd\\name",
    "notes..old", "x,y",
];
/// Languages whose generated content needs no wrapper (any line is acceptable between comments).
pub const HASH_EXTS: &[&str] = &["py", "rb", "sh", "py", "rb", "sh", "py", "md", "markdown", "html"];
/// Extensions blockwatch does not know; `-E <ext>=py|rb|sh` maps them to a grammar.
pub const CUSTOM_EXTS: &[&str] = &["cfg", "txt", "bzl", "in"];
pub const WRAP_EXTS: &[&str] = &["rs", "js", "go", "ts", "java", "cs", "c", "cpp", "swift", "php", "toml"];

#[derive(Clone, Debug)]
pub struct GenCfg {
    pub files: (usize, usize),
    pub blocks: (usize, usize),
    pub max_lines: usize,
    pub nesting: bool,
    /// Probability (per cent) that a block carries each rule.
    pub p_sorted: usize,
    pub p_unique: usize,
    pub p_pattern: usize,
    pub p_count: usize,
    pub p_lua: usize,
    pub p_ai: usize,
    pub p_affects: usize,
    /// Probability (per cent) that a rule-bearing block is built to be clean.
    pub p_clean: usize,
    pub severities: bool,
    pub dirs: bool,
    pub wrap_langs: bool,
    /// Rich content (quotes, backslashes, non-ASCII) in Lua/AI blocks.
    pub rich: bool,
    /// Probability (per cent) that one file gets an extension blockwatch does not know, usually
    /// together with a `-E ext=lang` mapping; without the mapping (only if `unmapped_ext`) the
    /// file has to be skipped silently.
    pub p_custom_ext: usize,
    pub unmapped_ext: bool,
}

impl Default for GenCfg {
    fn default() -> Self {
        GenCfg {
            files: (1, 4),
            blocks: (1, 3),
            max_lines: 5,
            nesting: true,
            p_sorted: 35,
            p_unique: 30,
            p_pattern: 25,
            p_count: 30,
            p_lua: 15,
            p_ai: 12,
            p_affects: 15,
            p_clean: 40,
            severities: true,
            dirs: true,
            wrap_langs: true,
            rich: true,
            p_custom_ext: 12,
            unmapped_ext: true,
        }
    }
}

pub struct Gen<'a> {
    pub rng: &'a mut Rng,
    pub world: World,
    pub plan: Plan,
    next_tok: usize,
    next_name: usize,
}

#[derive(Clone, Copy, PartialEq, Debug)]
enum Style {
    Words,
    Kv,
    Numbers,
    Rich,
}

impl<'a> Gen<'a> {
    pub fn new(rng: &'a mut Rng) -> Self {
        Gen {
            rng,
            world: World::default(),
            plan: Plan::default(),
            next_tok: 0,
            next_name: 0,
        }
    }

    pub fn lua_token(&mut self) -> String {
        self.next_tok += 1;
        format!("L{:03}", self.next_tok)
    }
    pub fn ai_token(&mut self) -> String {
        self.next_tok += 1;
        format!("TK{:03}K", self.next_tok)
    }
    pub fn fresh_name(&mut self) -> String {
        self.next_name += 1;
        format!("n{}", self.next_name)
    }

    // ------------------------------------------------------------------ paths

    pub fn gen_paths(&mut self, n: usize, dirs: bool, wrap_langs: bool) -> Vec<String> {
        let mut out: Vec<String> = Vec::new();
        let mut guard = 0;
        while out.len() < n && guard < 1000 {
            guard += 1;
            let compound = wrap_langs && self.rng.chance(1, 14);
            let forced = std::env::var("BWSIM_FORCE_EXT").ok();
            let ext: &str = if let Some(f) = forced.as_deref().and_then(|f| WRAP_EXTS.iter().chain(HASH_EXTS.iter()).find(|e| **e == f)) {
                f
            } else if compound {
                "go"
            } else if wrap_langs && self.rng.chance(1, 4) {
                *self.rng.pick(WRAP_EXTS)
            } else {
                *self.rng.pick(HASH_EXTS)
            };
            // the same file name at two levels of the tree is an interesting shape (a path
            // resolved against the wrong directory then still finds *a* file)
            let reuse = if dirs && !out.is_empty() && self.rng.chance(1, 4) {
                let o = self.rng.pick(&out).clone();
                o.rsplit('/').next().and_then(|n| n.rsplit_once('.')).map(|(s, e)| (s.to_string(), e.to_string()))
            } else {
                None
            };
            let (stem, ext): (String, &str) = match &reuse {
                Some((s, e)) if HASH_EXTS.contains(&e.as_str()) || WRAP_EXTS.contains(&e.as_str()) => {
                    let e: &'static str = HASH_EXTS.iter().chain(WRAP_EXTS.iter()).find(|x| **x == e.as_str()).unwrap();
                    (s.clone(), e)
                }
                _ => (self.rng.pick(STEMS).to_string(), ext),
            };
            let stem = stem.as_str();
            let depth = if dirs { self.rng.below(3) } else { 0 };
            let mut p = String::new();
            for _ in 0..depth {
                p.push_str(*self.rng.pick(DIRS));
                p.push('/');
            }
            p.push_str(&format!("{stem}.{ext}"));
            // now and then a compound Go file name, and a look-alike that maps to no grammar
            if compound && ext == "go" {
                let dir = p.strip_suffix(&format!("{stem}.go")).unwrap_or("").to_string();
                let kind = *self.rng.pick(&["mod", "sum", "work"]);
                p = if self.rng.chance(2, 3) {
                    format!("{dir}go.{kind}")
                } else {
                    format!("{dir}{stem}.go.{kind}")
                };
                if self.rng.chance(2, 3) && out.len() + 1 < n {
                    let decoy_dir = if self.rng.chance(1, 2) { dir.clone() } else { String::new() };
                    let decoy = format!("{decoy_dir}{}.{kind}", self.rng.pick(&["legacy", "notes", "old"]));
                    if !out.iter().any(|o| o == &decoy || o.starts_with(&format!("{decoy}/")) || decoy.starts_with(&format!("{o}/"))) && decoy != p {
                        out.push(decoy);
                    }
                }
            }
            // a path must not be a prefix-directory of another path
            if out.iter().any(|o| o == &p || o.starts_with(&format!("{p}/")) || p.starts_with(&format!("{o}/"))) {
                continue;
            }
            out.push(p);
        }
        out
    }

    // ------------------------------------------------------------------ content

    fn gen_lines(&mut self, style: Style, max: usize, path: &str, clean: bool) -> Vec<String> {
        let n = self.rng.range(0, max);
        let indent_ok = !path.ends_with(".py") && wrapper_free(path);
        let mut keys: Vec<String> = Vec::new();
        match style {
            Style::Words => {
                for _ in 0..n {
                    keys.push(self.rng.pick(WORDS).to_string());
                }
            }
            Style::Kv => {
                for _ in 0..n {
                    let w = *self.rng.pick(WORDS);
                    let d = self.rng.below(30);
                    keys.push(format!("{w}={d}"));
                }
            }
            Style::Numbers => {
                for _ in 0..n {
                    if !clean && wrapper_free(path) && self.rng.chance(1, 5) {
                        // legal numbers whose order only the IEEE total order settles
                        keys.push(self.rng.pick(&["nan", "NaN", "inf", "-inf", "-0", "-0.0", "0.0"]).to_string());
                        continue;
                    }
                    keys.push(self.rng.pick(NUMBERS).to_string());
                }
            }
            Style::Rich => {
                for i in 0..n {
                    let v = match self.rng.below(if path.ends_with(".py") { 8 } else { 7 }) {
                        // one CRLF-terminated line inside an LF file (Python accepts both)
                        7 => format!("y{i} = {}\r", self.rng.below(100)),
                        0 => "s = \"he said \\\"hi\\\" \\\\ back\"".to_string(),
                        1 => "t = \"single ' quote\"".to_string(),
                        2 => "u = \"caf\u{e9} \u{2603} \u{1f600} \u{4e16}\u{754c}\"".to_string(),
                        3 => format!("v{i} = \"tab\there\""),
                        4 => "w = \"{\\\"json\\\": [1, 2, {\\\"k\\\": null}]}\"".to_string(),
                        5 => format!("x{i} = {}", self.rng.below(1000)),
                        _ => self.rng.pick(WORDS).to_string(),
                    };
                    keys.push(v);
                }
            }
        }
        // white space in the Unicode sense at the edges of the content (free-text languages only)
        if style == Style::Rich
            && !keys.is_empty()
            && [".md", ".markdown", ".html"].iter().any(|e| path.ends_with(e))
            && self.rng.chance(1, 4)
        {
            let ws = *self.rng.pick(&["\u{a0}", "\u{3000}", "\u{2003}", "\u{b}", "\u{a0}\u{3000}"]);
            if self.rng.chance(1, 2) {
                keys[0] = format!("{ws}{}", keys[0]);
            } else {
                let last = keys.len() - 1;
                if !keys[last].ends_with('\r') {
                    keys[last] = format!("{}{ws}", keys[last]);
                }
            }
        }
        if clean && style != Style::Rich {
            keys.sort();
            keys.dedup();
        } else if self.rng.chance(1, 3) {
            keys.sort();
        }
        let mut lines = Vec::new();
        for k in keys {
            if self.rng.chance(1, 8) {
                lines.push(if self.rng.chance(1, 2) { String::new() } else { "  ".to_string() });
            }
            if indent_ok && style != Style::Rich && self.rng.chance(1, 6) {
                lines.push(format!("  {k}"));
            } else {
                lines.push(k);
            }
        }
        // blanks at the end of a line are not part of its value
        let trailing: Vec<&str> = (0..lines.len())
            .map(|_| match self.rng.below(16) {
                0 => "  ",
                1 => "\t",
                _ => "",
            })
            .collect();
        if !wrapper_free(path) {
            // array-literal languages: every content line is a string element
            lines = lines
                .into_iter()
                .map(|l| {
                    if l.trim().is_empty() {
                        l
                    } else {
                        format!("    \"{}\",", l.trim().replace('\\', "").replace('"', ""))
                    }
                })
                .collect();
        }
        if style != Style::Rich {
            for (l, t) in lines.iter_mut().zip(trailing) {
                if !l.is_empty() && !l.ends_with('\r') {
                    l.push_str(t);
                }
            }
        }
        lines
    }

    /// One block. `clean` biases content so that line rules pass.
    pub fn gen_block(&mut self, cfg: &GenCfg, path: &str, depth: usize) -> BlockSpec {
        let wrapped = !wrapper_free(path);
        let mut b = BlockSpec::default();
        let clean = self.rng.chance(cfg.p_clean, 100);
        let wants_async = self.rng.chance(cfg.p_lua + cfg.p_ai, 100);
        let style = if wrapped {
            Style::Words
        } else if cfg.rich && wants_async && self.rng.chance(1, 2) {
            Style::Rich
        } else {
            *self.rng.pick(&[Style::Words, Style::Words, Style::Kv, Style::Numbers])
        };
        if self.rng.chance(1, 2) {
            // names need not be unique: now and then reuse one that already exists
            let n = if self.next_name > 0 && self.rng.chance(1, 6) {
                format!("n{}", self.rng.range(1, self.next_name))
            } else {
                self.fresh_name()
            };
            // a name is a free attribute value: it may contain a colon (`file:api:v2` then refers to
            // block `api:v2` of `file`: a reference is split at its first colon)
            let n = if self.rng.chance(1, 10) { format!("{n}:v2") } else { n };
            b.attrs.push(("name".into(), n));
        }
        // nesting up to three levels deep
        let with_children = cfg.nesting
            && !wrapped
            && ((depth == 0 && self.rng.chance(1, 6)) || (depth == 1 && self.rng.chance(1, 5)));
        b.lines = self.gen_lines(style, cfg.max_lines, path, clean);
        if with_children {
            let n = self.rng.range(1, 2);
            for _ in 0..n {
                let c = self.gen_block(cfg, path, depth + 1);
                b.children.push(c);
            }
            b.tail = self.gen_lines(style, 2, path, clean);
        }
        // an empty block may sit in a single comment
        if b.lines.is_empty() && !with_children && self.rng.chance(1, 3) {
            b.one_comment = true;
        }
        let line_rules_ok = !with_children && style != Style::Rich;
        if line_rules_ok && self.rng.chance(cfg.p_sorted, 100) {
            let dirs: &[&str] = if clean { &["", "asc", "ASC", "Asc"] } else { &["", "asc", "desc", "ASC", "Desc", "DESC"] };
            b.attrs.push(("keep-sorted".into(), self.rng.pick(dirs).to_string()));
            match style {
                Style::Numbers => {
                    if self.rng.chance(2, 3) {
                        let f = *self.rng.pick(&["numeric", "NUMERIC", "Numeric"]);
                        b.attrs.push(("keep-sorted-format".into(), f.into()));
                        if clean {
                            sort_numeric(&mut b.lines);
                        }
                    }
                }
                Style::Kv if !wrapped => {
                    let p = *self.rng.pick(&model::LINE_KEY_PATTERNS[..2]);
                    b.attrs.push(("keep-sorted-pattern".into(), p.into()));
                    if p.contains("(?P<value>[0-9]+)") && self.rng.chance(1, 2) {
                        b.attrs.push(("keep-sorted-format".into(), "numeric".into()));
                    }
                }
                Style::Words if !wrapped && self.rng.chance(1, 4) => {
                    b.attrs.push(("keep-sorted-pattern".into(), "^[a-z]+$".into()));
                }
                _ => {
                    if self.rng.chance(1, 6) {
                        b.attrs.push(("keep-sorted-format".into(), "lexicographic".into()));
                    }
                }
            }
        }
        if line_rules_ok && self.rng.chance(cfg.p_unique, 100) {
            let v = match style {
                Style::Kv if !wrapped && self.rng.chance(2, 3) => {
                    self.rng.pick(&model::LINE_KEY_PATTERNS[..2]).to_string()
                }
                Style::Words if !wrapped && self.rng.chance(1, 4) => "^[a-z]+$".to_string(),
                _ => String::new(),
            };
            b.attrs.push(("keep-unique".into(), v));
        }
        if line_rules_ok && !wrapped && self.rng.chance(cfg.p_pattern, 100) {
            let p = match (style, clean) {
                (Style::Words, true) => *self.rng.pick(&["^[a-z]+$", "^[a-z0-9=]+$"]),
                (Style::Kv, true) => *self.rng.pick(&["^[a-z]+=[0-9]+$", "^[a-z0-9=]+$", "[0-9]"]),
                (Style::Numbers, true) => "[0-9]",
                _ => *self.rng.pick(model::LINE_PATTERNS),
            };
            b.attrs.push(("line-pattern".into(), p.into()));
        }
        if self.rng.chance(cfg.p_count, 100) {
            let op = *self.rng.pick(&["<", "<=", "==", ">=", ">"]);
            let n = self.rng.below(cfg.max_lines + 3);
            let sp = if self.rng.chance(1, 2) { " " } else { "" };
            b.attrs.push(("line-count".into(), format!("{op}{sp}{n}")));
        }
        if self.rng.chance(cfg.p_lua, 100) {
            self.add_lua(&mut b, ScriptKind::Good, clean);
        }
        if self.rng.chance(cfg.p_ai, 100) {
            self.add_ai(&mut b, clean);
        }
        if cfg.severities && self.rng.chance(1, 2) {
            let s = *self.rng.pick(&[
                "error", "warning", "info", "hint", "Error", "WARNING", "Info", "HINT", "wArNiNg",
            ]);
            b.attrs.push(("severity".into(), s.into()));
        }
        if self.rng.chance(1, 5) {
            // an attribute no validator knows
            b.attrs.push(("owner".into(), "team-\u{3b1}".into()));
        }
        if self.rng.chance(1, 8) {
            // names and unquoted values may use any alphanumeric character, not just ASCII
            let (k, v) = *self.rng.pick(&[
                ("gr\u{f6}\u{df}e", "1"),
                ("\u{540d}\u{524d}", "x"),
                ("\u{43a}\u{43b}\u{44e}\u{447}", "\u{437}\u{43d}\u{430}\u{447}\u{435}\u{43d}\u{438}\u{435}-1"),
                ("reviewer", "\u{17b}aneta"),
                ("n\u{663}", "\u{663}"),
                ("team_2", "core"),
                ("team_2", "core"),
                ("link", "https://example.com/a//b#frag"),
                ("ticket", "#4711 // urgent"),
            ]);
            b.attrs.push((k.into(), v.into()));
            if k == "team_2" && self.rng.chance(2, 3) {
                // `-` and `_` are different characters: two attributes, two values
                b.attrs.push(("team-2".into(), "platform".into()));
            }
        }
        if self.rng.chance(1, 6) {
            // an unknown attribute whose name merely starts like a known one (or is a known name
            // with a suffix / prefix) is just another unknown attribute
            let (k, v) = *self.rng.pick(&[
                ("keep-sorted-owner", "infra"),
                ("keep-sorted-by", "desc"),
                ("keep-sorted-formatter", "numeric"),
                ("keep-unique-note", "("),
                ("line-count-hint", "<0"),
                ("line-pattern-doc", "["),
                ("check-lua-owner", "missing.lua"),
                ("check-ai-owner", ""),
                ("affects-note", "no colon"),
                ("severity-note", "fatal"),
                ("x-keep-sorted", "sideways"),
                ("keep-sorted_pattern", "("),
            ]);
            if !b.has(k) {
                b.attrs.push((k.into(), v.into()));
            }
        }
        if self.rng.chance(1, 6) {
            // attribute names are case-sensitive: a differently-cased look-alike of a known name is
            // just another unknown attribute (and reaches scripts exactly as written)
            let (k, v) = *self.rng.pick(&[
                ("Severity", "error"),
                ("SEVERITY", "hint"),
                ("Keep-Sorted", "desc"),
                ("Keep-Unique", "("),
                ("Line-Count", "<0"),
                ("Line-Pattern", "["),
                ("Name", "Shadow"),
                ("maxItems", "3"),
                ("Owner", "Team-A"),
                ("Check-Ai", "never sent"),
                ("Affects", "nocolon"),
            ]);
            b.attrs.push((k.into(), v.into()));
        }
        if clean {
            self.repair_line_count(&mut b);
        }
        // the order in which attributes are written carries no meaning
        if self.rng.chance(1, 2) {
            self.rng.shuffle(&mut b.attrs);
        }
        b
    }

    fn repair_line_count(&mut self, b: &mut BlockSpec) {
        if b.has("line-count") {
            // count what the model will count (children included), then pick a satisfied bound
            let f = FileSpec {
                path: "t.py".into(),
                blocks: vec![b.clone()],
                ..Default::default()
            };
            let r = render_file(&f, false);
            let actual = r.blocks[0]
                .content
                .split('\n')
                .filter(|l| !l.trim().is_empty())
                .count();
            let v = match self.rng.below(3) {
                0 => format!("=={actual}"),
                1 => format!("<= {}", actual + self.rng.below(3)),
                _ => format!(">={}", actual.saturating_sub(self.rng.below(3))),
            };
            b.set_attr("line-count", &v);
        }
    }

    pub fn script_path(&mut self, kind: ScriptKind) -> String {
        // share the good script between blocks most of the time
        if kind == ScriptKind::Good {
            if let Some(s) = self.world.scripts.iter().find(|s| s.kind == ScriptKind::Good) {
                if self.rng.chance(3, 4) {
                    return s.path.clone();
                }
            }
        }
        let p = format!("lua/s{}.lua", self.world.scripts.len());
        self.world.scripts.push(ScriptSpec {
            path: p.clone(),
            kind,
        });
        if self.rng.chance(1, 2) {
            let n = self.rng.range(1, 6) as u32;
            self.plan.lua_load_yields.insert(p.clone(), n);
        }
        p
    }

    pub fn add_lua(&mut self, b: &mut BlockSpec, kind: ScriptKind, clean: bool) {
        let tok = self.lua_token();
        let path = self.script_path(kind);
        b.attrs.push(("check-lua".into(), path));
        b.attrs.push(("x-tok".into(), tok.clone()));
        let ret = if clean || self.rng.chance(1, 2) {
            "nil"
        } else if self.rng.chance(1, 6) {
            "empty"
        } else {
            "str"
        };
        b.attrs.push(("x-ret".into(), ret.into()));
        if self.rng.chance(1, 4) {
            let p = *self.rng.pick(model::CONTENT_PATTERNS);
            b.attrs.push(("check-lua-pattern".into(), p.into()));
        }
        let y = match self.rng.below(4) {
            0 => 0,
            1 => self.rng.below(3) as u32,
            2 => self.rng.below(12) as u32,
            _ => self.rng.below(40) as u32,
        };
        self.plan.lua_yields.insert(tok.clone(), y);
        self.plan.lua_busy.insert(tok, self.rng.below(20) as u32);
    }

    pub fn ai_condition(&mut self, tok: &str, rich: bool) -> String {
        if !rich {
            return format!("{tok} items must be fruit");
        }
        match self.rng.below(6) {
            0 => format!("{tok} must mention 'banana' and \\backslash\\"),
            1 => format!("{tok} says \"quoted\" text \\n literal"),
            2 => format!("{tok} caf\u{e9} \u{2603} \u{1f600} {{\"json\": true}}"),
            3 => format!("  {tok} padded with blanks  "),
            4 => format!("{tok}\tTAB and / slash & ampersand %20"),
            5 if self.rng.chance(1, 3) => format!("{tok} the sum \\(in USD\\) stays, 1\\) and 2\\) too"),
            5 if self.rng.chance(1, 2) => format!("{tok} see issue #12, https://example.com/a//b#frag ; x < y > z"),
            5 if self.rng.chance(1, 2) => format!("{tok} every {{block}} placeholder needs its {{condition}} and {{content}}, ${{1}} %s {{0}}"),
            _ => format!("{tok} items must be fruit"),
        }
    }

    pub fn add_ai(&mut self, b: &mut BlockSpec, clean: bool) {
        let tok = self.ai_token();
        let cond = self.ai_condition(&tok, true);
        b.attrs.push(("check-ai".into(), cond));
        if self.rng.chance(1, 4) {
            let p = *self.rng.pick(model::CONTENT_PATTERNS);
            b.attrs.push(("check-ai-pattern".into(), p.into()));
        }
        let reply = if clean || self.rng.chance(1, 2) {
            AiReply::Text(self.rng.pick(&["OK", "ok", "Ok.", "OK.", "oK", "ok."]).to_string())
        } else {
            AiReply::Text(
                self.rng
                    .pick(&[
                        "Add a banana.",
                        "OK but not quite",
                        "ok!",
                        " OK",
                        "OK ",
                        "O K",
                        "okay",
                        "\"OK\"",
                        "Fix: use \"quotes\" \\ and caf\u{e9} \u{1f600}\nsecond line",
                        "",
                        " \n\t",
                        "OK..",
                    ])
                    .to_string(),
            )
        };
        self.world.ai.insert(tok.clone(), reply);
        let lat = match self.rng.below(5) {
            0 => 0,
            1 => self.rng.below(50) as u64,
            2 => self.rng.below(2_000) as u64,
            3 => self.rng.below(10_000) as u64,
            _ => 3_600_000,
        };
        let chunk = *self.rng.pick(&[0usize, 0, 1, 7, 64]);
        self.plan.ai_timing.insert(
            tok,
            AiTiming {
                latency_ms: lat,
                chunk,
                chunk_gap_ms: if chunk > 0 { self.rng.below(20) as u64 } else { 0 },
            },
        );
    }

    pub fn ensure_ai_env(&mut self) {
        let e = &mut self.world.env;
        if e.ai_key.is_none() {
            e.ai_key = Some(self.rng.pick(&["test-key", "sk-s1m", "k"]).to_string());
        }
        if e.ai_model.is_none() && self.rng.chance(3, 4) {
            e.ai_model = Some(self.rng.pick(&["sim-model", "gpt-sim-1"]).to_string());
        }
        e.ai_base_path = self.rng.pick(&["/v1", "", "/api/openai/v1"]).to_string();
        e.ai_keep_alive = self.rng.chance(1, 2);
        e.ambient_openai_env = self.rng.chance(1, 3);
    }

    // ------------------------------------------------------------------ whole worlds

    pub fn gen_files(&mut self, cfg: &GenCfg) {
        let n = self.rng.range(cfg.files.0, cfg.files.1);
        let mut paths = self.gen_paths(n, cfg.dirs, cfg.wrap_langs);
        // files whose name says nothing to blockwatch, and the `-E` mappings that make them known
        let mut langs: Vec<Option<String>> = vec![None; paths.len()];
        if self.rng.chance(cfg.p_custom_ext, 100) {
            let cands: Vec<usize> = (0..paths.len())
                .filter(|&i| [".py", ".rb", ".sh"].iter().any(|e| paths[i].ends_with(e)) && !paths[i].contains('\\'))
                .collect();
            if !cands.is_empty() {
                let i = *self.rng.pick(&cands);
                let (stem, lang) = paths[i].rsplit_once('.').map(|(s, e)| (s.to_string(), e.to_string())).unwrap();
                let shape = self.rng.below(10);
                // the key of the mapping: an unknown extension, or (no dot) the whole file name
                let (np, key) = if shape < 3 {
                    let name = *self.rng.pick(&["BUILD", "Dockerfile", "WORKSPACE"]);
                    let dir = stem.rsplit_once('/').map(|(d, _)| format!("{d}/")).unwrap_or_default();
                    (format!("{dir}{name}"), name.to_string())
                } else {
                    let ext = *self.rng.pick(CUSTOM_EXTS);
                    (format!("{stem}.{ext}"), ext.to_string())
                };
                let mapped = !cfg.unmapped_ext || self.rng.chance(3, 4);
                let clash = paths.iter().any(|p| *p == np || p.starts_with(&format!("{np}/")))
                    || self.world.args.extensions.iter().any(|(k, _)| *k == key);
                if !clash {
                    paths[i] = np;
                    if mapped && shape >= 8 && !paths.iter().any(|p| p.ends_with(".markdown")) {
                        // a chain: the target of this mapping is itself remapped. Mappings are not
                        // transitive: this file is Markdown, and `.markdown` files are now <lang>.
                        self.world.args.extensions.push((key, "markdown".into()));
                        self.world.args.extensions.push(("markdown".into(), lang));
                        langs[i] = Some("markdown".into());
                    } else if mapped {
                        self.world.args.extensions.push((key, lang.clone()));
                        langs[i] = Some(lang);
                    }
                }
            }
        }
        if self.rng.chance(cfg.p_custom_ext, 400) && !paths.iter().any(|p| p.ends_with(".markdown")) {
            // a mapping may also override an extension blockwatch knows: `-E rb=markdown` makes every
            // `.rb` file a Markdown file (`finish` writes them accordingly)
            let ext = *self.rng.pick(&["py", "rb", "sh"]);
            if !self.world.args.extensions.iter().any(|(k, v)| k == ext || v == ext) {
                self.world.args.extensions.push((ext.to_string(), "markdown".into()));
            }
        }
        for (p, lang) in paths.into_iter().zip(langs) {
            let nb = self.rng.range(cfg.blocks.0, cfg.blocks.1);
            let mut f = FileSpec {
                path: p.clone(),
                lang,
                tab_tags: self.rng.chance(1, 10),
                bom: self.rng.chance(1, 10),
                spelling: if self.rng.chance(1, 6) { self.rng.next_u64() | 1 } else { 0 },
                block_comments: if self.rng.chance(1, 5) { self.rng.next_u64() | 1 } else { 0 },
                no_final_newline: self.rng.chance(1, 10),
                ..Default::default()
            };
            for _ in 0..nb {
                let b = self.gen_block(cfg, &p, 0);
                f.blocks.push(b);
            }
            self.world.files.push(f);
        }
        if cfg.p_ai > 0 && self.rng.chance(1, 5) {
            self.add_ai_twin();
            if self.rng.chance(1, 4) {
                self.add_ai_twin();
            }
        }
    }

    /// Writes an existing check-ai prompt on one more block ("twin"): same condition (hence same
    /// token and reply), usually the same content. Every twin is still one request and, when the
    /// reply is not OK, one diagnostic of its own.
    pub fn add_ai_twin(&mut self) {
        let mut donors: Vec<(usize, BlockSpec)> = Vec::new();
        for (fi, f) in self.world.files.iter().enumerate() {
            for b in &f.blocks {
                if b.has("check-ai") && b.children.is_empty() && !b.has("check-lua") {
                    donors.push((fi, b.clone()));
                }
            }
        }
        if donors.is_empty() {
            return;
        }
        let (fi, donor) = donors[self.rng.below(donors.len())].clone();
        let mut twin = BlockSpec::default();
        for (k, v) in &donor.attrs {
            if k == "check-ai" || k == "check-ai-pattern" {
                twin.attrs.push((k.clone(), v.clone()));
            }
        }
        if self.rng.chance(1, 2) {
            let s = *self.rng.pick(&["error", "warning", "info", "hint", "Warning"]);
            twin.attrs.push(("severity".into(), s.into()));
        }
        twin.lines = if self.rng.chance(3, 4) {
            donor.lines.clone()
        } else {
            vec!["twin=1".to_string()]
        };
        let n = self.world.files.len();
        let target = if self.rng.chance(1, 2) { fi } else { self.rng.below(n) };
        let same_lang = wrapper_free(&self.world.files[target].path) == wrapper_free(&self.world.files[fi].path)
            && (self.world.files[target].path.ends_with(".py") == self.world.files[fi].path.ends_with(".py")
                || twin.lines.iter().all(|l| !l.starts_with(' ')));
        let has_cr = twin.lines.iter().any(|l| l.contains('\r'));
        let target = if same_lang && (!has_cr || self.world.files[target].path.ends_with(".py")) {
            target
        } else {
            fi
        };
        let pos = self.rng.below(self.world.files[target].blocks.len() + 1);
        self.world.files[target].blocks.insert(pos, twin);
    }

    /// Adds `affects` references between (named) blocks; only meaningful in diff mode.
    pub fn add_affects(&mut self, cfg: &GenCfg) {
        let mut named: Vec<(String, String)> = Vec::new();
        for f in &self.world.files {
            for_each_block(&f.blocks, &mut |b| {
                // (a reference list is comma-separated: a file with a comma in its name cannot be named)
                if let Some(n) = b.attr("name") {
                    if !f.path.contains(',') {
                        named.push((f.path.clone(), n.to_string()));
                    }
                }
            });
        }
        let nfiles = self.world.files.len();
        for fi in 0..nfiles {
            let path = self.world.files[fi].path.clone();
            let mut picks: Vec<String> = Vec::new();
            let mut count = 0;
            for_each_block(&self.world.files[fi].blocks, &mut |_| count += 1);
            for _ in 0..count {
                if self.rng.chance(cfg.p_affects, 100) {
                    let nrefs = self.rng.range(1, 3);
                    let mut refs = Vec::new();
                    for _ in 0..nrefs {
                        let r = match self.rng.below(5) {
                            0 => format!(":missing{}", self.rng.below(3)),
                            1 => format!("nowhere/else.py:ghost{}", self.rng.below(3)),
                            _ if !named.is_empty() => {
                                let (f, n) = self.rng.pick(&named).clone();
                                if f == path && self.rng.chance(1, 2) {
                                    format!(":{n}")
                                } else {
                                    format!("{f}:{n}")
                                }
                            }
                            _ => ":missing".to_string(),
                        };
                        refs.push(r);
                    }
                    let sep = if self.rng.chance(1, 2) { ", " } else { "," };
                    picks.push(refs.join(sep));
                } else {
                    picks.push(String::new());
                }
            }
            let mut i = 0;
            for_each_block_mut(&mut self.world.files[fi].blocks, &mut |b| {
                if !picks[i].is_empty() {
                    b.set_attr("affects", &picks[i]);
                }
                i += 1;
            });
        }
    }

    /// The same-file shorthand `:name`, written identically in two files that each have a block
    /// of that name: every file must resolve it against itself.
    pub fn add_shared_shorthand_affects(&mut self) {
        let n = self.world.files.len();
        let eligible: Vec<usize> = (0..n)
            .filter(|&i| {
                let mut c = 0;
                for_each_block(&self.world.files[i].blocks, &mut |_| c += 1);
                c >= 2
            })
            .collect();
        if eligible.len() < 2 {
            return;
        }
        let a = eligible[self.rng.below(eligible.len())];
        let mut b = eligible[self.rng.below(eligible.len())];
        if a == b {
            b = *eligible.iter().find(|&&x| x != a).unwrap();
        }
        let name = format!("shared{}", self.rng.below(3));
        for fi in [a, b] {
            // first block gets the name, second one refers to it
            let mut k = 0;
            for_each_block_mut(&mut self.world.files[fi].blocks, &mut |blk| {
                if k == 0 {
                    blk.set_attr("name", &name);
                } else if k == 1 {
                    blk.set_attr("affects", &format!(":{name}"));
                }
                k += 1;
            });
        }
    }

    /// Chooses stdin mode and per-file diffs. Returns true in diff mode.
    pub fn gen_stdin(&mut self, p_diff: usize, allow_insert: bool) -> bool {
        if !self.rng.chance(p_diff, 100) {
            self.world.stdin = StdinSpec::Terminal;
            return false;
        }
        self.world.stdin = StdinSpec::Piped;
        let n = self.world.files.len();
        for i in 0..n {
            let roll = self.rng.below(10);
            if roll < 5 {
                self.world.files[i].diff = FileDiff::Added;
            } else if roll < 8 && allow_insert {
                if let Some(l) = self.pick_insert_line(i) {
                    self.world.files[i].diff = FileDiff::Insert { line: l, renamed_from: None, edit: LineEdit::Inserted, more: vec![] };
                    self.vary_edit(i);
                }
            }
        }
        true
    }

    /// Turns the single-line insertion of file `i` into "renamed and edited": the diff then names
    /// an old path that no longer exists.
    pub fn maybe_rename(&mut self, i: usize) {
        if !self.rng.chance(1, 3) {
            return;
        }
        let FileDiff::Insert { line, edit, more, .. } = self.world.files[i].diff.clone() else {
            return;
        };
        // git recognises a rename by similarity: a re-written tag line changes too much of a small file
        if self.world.files[i].diff.edits().iter().any(|(_, e)| matches!(e, LineEdit::Replaced { old } if is_tag_rewrite(old))) {
            return;
        }
        let path = self.world.files[i].path.clone();
        let (dir, name) = match path.rsplit_once('/') {
            Some((d, n)) => (format!("{d}/"), n.to_string()),
            None => (String::new(), path.clone()),
        };
        let old = match self.rng.below(3) {
            0 => format!("{dir}was_{name}"),
            1 => format!("attic/{name}"),
            _ => format!("{dir}old/{name}"),
        };
        let collides = old.starts_with("b/")
            || self.world.files.iter().any(|g| {
                g.path == old || g.path.starts_with(&format!("{old}/")) || old.starts_with(&format!("{}/", g.path))
            })
            || self.world.files.iter().any(|g| matches!(&g.diff, FileDiff::Insert { renamed_from: Some(o), .. } if *o == old));
        if !collides {
            self.world.files[i].diff = FileDiff::Insert { line, renamed_from: Some(old), edit, more };
        }
    }

    /// Now and then the one-line change of file `i` is not an added line: the line replaces another
    /// one, or a line in front of it (or, for the last content line, behind it) was removed. What
    /// the old line said is irrelevant to blockwatch (it reads the new file only); it is a unique
    /// word so that git has exactly one way to write the diff.
    pub fn vary_edit(&mut self, i: usize) {
        let FileDiff::Insert { line, renamed_from, .. } = self.world.files[i].diff.clone() else {
            return;
        };
        let r = render_file(&self.world.files[i], false);
        // a line replaced by an EMPTY line is a modified line too (its character-level difference is
        // a pure deletion)
        let blanks: Vec<usize> =
            self.insert_candidates(i).into_iter().filter(|l| r.lines[*l - 1].is_empty()).collect();
        let (line, edit) = if !blanks.is_empty() && self.rng.chance(1, 4) {
            let l = *self.rng.pick(&blanks);
            (l, LineEdit::Replaced { old: format!("gone{}", self.rng.below(1000)) })
        } else {
            self.random_edit(&r, line, &[])
        };
        let mut more = Vec::new();
        // a second change further down: another hunk (or, with context lines, the same one)
        if self.rng.chance(2, 5) {
            let cands: Vec<usize> = self
                .insert_candidates(i)
                .into_iter()
                .filter(|&l| l > line + 2 || l + 3 < line)
                .collect();
            if !cands.is_empty() {
                let l2 = *self.rng.pick(&cands);
                let (l2, e2) = self.random_edit(&r, l2, &[&edit]);
                // a removed line is only drawn where old and new line numbers still agree
                let (first, second) = if l2 > line { (&edit, &e2) } else { (&e2, &edit) };
                let shifted_removal =
                    matches!(second, LineEdit::Removed { .. }) && !matches!(first, LineEdit::Replaced { .. });
                if (l2 > line + 1 || l2 + 2 < line) && !shifted_removal {
                    more.push((l2, e2));
                }
            }
        }
        self.world.files[i].diff = FileDiff::Insert { line, renamed_from, edit, more };
    }

    /// What happened at (or right in front of) rendered line `line`; may move a removal behind the
    /// last content line. `taken` are edits whose old text must not be reused.
    fn random_edit(&mut self, r: &RenderedFile, line: usize, taken: &[&LineEdit]) -> (usize, LineEdit) {
        // (now and then the old line was an empty list item: its diff line reads `-- `)
        let mut old = if self.rng.chance(1, 6) { "- ".to_string() } else { format!("gone{}", self.rng.below(1000)) };
        let used = |o: &str| {
            r.lines.iter().any(|l| l == o)
                || taken.iter().any(|t| matches!(t, LineEdit::Replaced { old } | LineEdit::Removed { old } if old == o))
        };
        while used(&old) {
            old.push('x');
        }
        // the start tag of the block around the line is re-written (say, an attribute changed): a
        // "modified line" whose old text shares no character with the new one, so the whole line
        // counts as changed. The block is then selected through its tag, not its content.
        if self.rng.chance(1, 7) {
            if let Some(b) = r
                .blocks
                .iter()
                .filter(|b| b.start_line < line && line < b.end_line && b.tag_lines == 1)
                // (ASCII tag lines only: blockwatch compares character indices of the change with
                // byte columns of the tag, which agree only there - C01/C02 territory)
                .filter(|b| r.lines[b.start_line - 1].is_ascii())
                .max_by_key(|b| b.start_line)
            {
                let tag_line = &r.lines[b.start_line - 1];
                if self.rng.chance(1, 2) {
                    // ... or only its last attribute was dropped
                    if let Some(old) = with_dropped_attr(tag_line) {
                        let fresh = !taken.iter().any(|t| matches!(t, LineEdit::Replaced { old: o } if *o == old));
                        if fresh && !tag_line.contains(DROPPED_ATTR) {
                            return (b.start_line, LineEdit::Replaced { old });
                        }
                    }
                }
                let tildes = "~".repeat(3 + self.rng.below(30));
                let fresh = !taken.iter().any(|t| matches!(t, LineEdit::Replaced { old } if *old == tildes));
                if fresh && !tag_line.contains('~') {
                    return (b.start_line, LineEdit::Replaced { old: tildes });
                }
            }
        }
        match self.rng.below(10) {
            0..=2 => (line, LineEdit::Replaced { old }),
            3..=5 => {
                // behind the last content line: the line that follows is the block's end tag
                let next_is_end_tag = r.blocks.iter().any(|b| b.end_line == line + 1);
                let line = if next_is_end_tag && self.rng.chance(1, 2) { line + 1 } else { line };
                (line, LineEdit::Removed { old })
            }
            _ => (line, LineEdit::Inserted),
        }
    }

    /// A rendered line number that may serve as a pure insertion (see model::invalid_reason).
    pub fn pick_insert_line(&mut self, file_idx: usize) -> Option<usize> {
        let candidates = self.insert_candidates(file_idx);
        if candidates.is_empty() {
            None
        } else {
            Some(*self.rng.pick(&candidates))
        }
    }

    /// Whether every edit of file `i`'s diff section still sits where `model::invalid_reason` allows.
    fn edits_legal(&self, i: usize) -> bool {
        let r = render_file(&self.world.files[i], false);
        let cands = self.insert_candidates(i);
        let edits = self.world.files[i].diff.edits();
        if edits.windows(2).any(|w| w[1].0 < w[0].0 + 2) {
            return false;
        }
        edits.iter().all(|(l, e)| match e {
            LineEdit::Removed { .. } => {
                *l >= 1
                    && *l <= r.lines.len()
                    && !r.blocks.iter().any(|b| b.is_start_tag_line(*l) || b.end_line + 1 == *l)
                    && r.blocks.iter().any(|b| b.start_line < *l && *l <= b.end_line)
            }
            LineEdit::Replaced { old } if is_tag_rewrite(old) => {
                r.blocks.iter().any(|b| b.start_line == *l && b.tag_lines == 1 && b.end_line != *l)
                    && !r.lines[*l - 1].contains('~')
                    && r.lines[*l - 1].is_ascii()
                    && (!old.contains(DROPPED_ATTR) || with_dropped_attr(&r.lines[*l - 1]).as_deref() == Some(old.as_str()))
            }
            _ => cands.contains(l),
        })
    }

    pub fn insert_candidates(&self, file_idx: usize) -> Vec<usize> {
        let r = render_file(&self.world.files[file_idx], false);
        let mut candidates = Vec::new();
        for l in 1..=r.lines.len() {
            let is_tag = r.blocks.iter().any(|b| b.is_start_tag_line(l) || b.end_line == l);
            if is_tag
                || r.lines.get(l) == r.lines.get(l - 1)
                || (l >= 2 && r.lines.get(l - 2) == r.lines.get(l - 1))
            {
                continue;
            }
            if !r.blocks.iter().any(|b| b.start_line < l && l < b.end_line) {
                continue;
            }
            let adjoins_foreign = r.blocks.iter().any(|b| {
                let inside = b.start_line < l && l < b.end_line;
                !inside && (l + 1 == b.start_line || l == b.end_line + 1)
            });
            if !adjoins_foreign {
                candidates.push(l);
            }
        }
        candidates
    }

    pub fn gen_plan_seeds(&mut self) {
        self.plan.hash_seed = self.rng.next_u64() | 1;
        self.plan.unit_seed = if self.rng.chance(1, 8) { 0 } else { self.rng.next_u64() | 1 };
        self.plan.walk_seed = if self.rng.chance(1, 8) { 0 } else { self.rng.next_u64() | 1 };
        self.plan.diff_seed = if self.rng.chance(1, 8) { 0 } else { self.rng.next_u64() | 1 };
        self.plan.net = match self.rng.below(5) {
            0 => NetPlan { pipe_capacity: 1, max_read: 1, max_write: 1 },
            1 => NetPlan { pipe_capacity: 7, max_read: 3, max_write: 5 },
            2 => NetPlan { pipe_capacity: 64, max_read: 64, max_write: 64 },
            3 => NetPlan { pipe_capacity: 4096, max_read: 17, max_write: 4096 },
            _ => NetPlan::default(),
        };
        self.plan.workers = *self.rng.pick(&[1usize, 2, 4, 16]);
        self.plan.cores = *self.rng.pick(&[1usize, 2, 16]);
        self.plan.create_seed = self.rng.next_u64();
    }

    pub fn uses_ai(&self) -> bool {
        let mut any = false;
        for f in &self.world.files {
            for_each_block(&f.blocks, &mut |b| any |= b.has("check-ai"));
        }
        any
    }
    pub fn uses_lua(&self) -> bool {
        let mut any = false;
        for f in &self.world.files {
            for_each_block(&f.blocks, &mut |b| any |= b.has("check-lua"));
        }
        any
    }

    pub fn finish(mut self) -> (World, Plan) {
        // a backslash is an ordinary file-name character on Unix, but git quotes such paths in
        // diffs (C-style, in double quotes) and it is the escape character of globs: keep those
        // files out of the diff and out of name-based globs
        for f in &mut self.world.files {
            if f.path.contains('\\') && !matches!(f.diff, FileDiff::None) {
                f.diff = FileDiff::None;
            }
        }
        let has_backslash = |g: &String| g.contains('\\');
        self.world.args.globs.retain(|g| !has_backslash(g));
        self.world.args.ignore.retain(|g| !has_backslash(g));
        if self.uses_ai() {
            self.ensure_ai_env();
        }
        if self.uses_lua() && self.world.env.lua_mode.is_none() && self.rng.chance(2, 3) {
            self.world.env.lua_mode = Some("safe".into());
        }
        // a file whose own extension is remapped with `-E` is read with the target grammar: write it
        // in that language (files added after `gen_files` may have such an extension)
        for f in &mut self.world.files {
            let name = f.path.rsplit('/').next().unwrap_or(&f.path);
            let ext = name.rsplit_once('.').map(|(_, e)| e).unwrap_or(name);
            if let Some((_, target)) = self.world.args.extensions.iter().find(|(k, _)| k == ext) {
                f.lang = Some(target.clone());
            } else if model::known_extension(&f.path, &[]) {
                // re-named by a generator after `gen_files`: its own extension decides again
                f.lang = None;
            }
        }
        // the one-line edits were picked by rendered line number; a generator that re-named a file
        // or touched its blocks afterwards may have moved the lines (how many lines a tag takes
        // depends on the language): re-pick where an edit no longer sits on a legal line
        for i in 0..self.world.files.len() {
            if !matches!(self.world.files[i].diff, FileDiff::Insert { .. }) || self.edits_legal(i) {
                continue;
            }
            let renamed_from = match &self.world.files[i].diff {
                FileDiff::Insert { renamed_from, .. } => renamed_from.clone(),
                _ => None,
            };
            self.world.files[i].diff = match self.pick_insert_line(i) {
                Some(line) => FileDiff::Insert { line, renamed_from, edit: LineEdit::Inserted, more: vec![] },
                None => FileDiff::Added,
            };
        }
        if !self.world.args.list && self.rng.chance(1, 8) {
            self.world.args.dashdash = true;
        }
        if self.world.args.list && self.rng.chance(1, 2) {
            self.world.args.split_globs = true;
        }
        // a large file (over 1 MiB): not mentioned by the diff, so that the filler stays out of stdin
        for f in &mut self.world.files {
            if matches!(f.diff, FileDiff::None)
                && [".py", ".rb", ".sh"].iter().any(|e| f.path.ends_with(e))
                && f.lang.is_none()
                && self.rng.chance(1, 50)
            {
                f.pad_kib = 1100;
            }
        }
        // a Markdown file written as the body of one list item (nested html_block nodes)
        for f in &mut self.world.files {
            let w = f.written_as();
            let mut one_comment = false;
            crate::world::for_each_block(&f.blocks, &mut |b| one_comment |= b.one_comment);
            if matches!(f.diff, FileDiff::None)
                && (w.ends_with(".md") || w.ends_with(".markdown"))
                && !f.bom
                && !one_comment
                && self.rng.chance(1, 3)
            {
                f.md_nest = 1;
            } else if matches!(f.diff, FileDiff::None) && (w.ends_with(".md") || w.ends_with(".markdown")) && self.rng.chance(1, 2) {
                f.md_ref = true;
            }
        }
        // a type change: the added file replaces a symbolic link of the same name
        for f in &mut self.world.files {
            if matches!(f.diff, FileDiff::Added) && !f.path.contains(' ') && self.rng.chance(1, 12) {
                f.was_symlink = true;
            }
        }
        // what else a real diff carries: binary files, mode changes
        if self.rng.chance(1, 5) {
            let n = 1 + self.rng.below(2);
            for _ in 0..n {
                let k = *self.rng.pick(&["binary", "new-binary", "mode"]);
                self.world.diff_noise.push(k.to_string());
            }
        }
        // `git diff` shows three unchanged lines around a change unless told otherwise
        self.world.diff_context = *self.rng.pick(&[0usize, 0, 3, 3, 1]);
        self.gen_plan_seeds();
        (self.world, self.plan)
    }
}

fn wrapper_free(path: &str) -> bool {
    !is_wrapped(path)
}

fn sort_numeric(lines: &mut Vec<String>) {
    let mut nums: Vec<(f64, String)> = lines
        .iter()
        .filter(|l| !l.trim().is_empty())
        .map(|l| (l.trim().parse::<f64>().unwrap_or(0.0), l.clone()))
        .collect();
    nums.sort_by(|a, b| a.0.total_cmp(&b.0));
    *lines = nums.into_iter().map(|(_, l)| l).collect();
}

/// Panics (harness bug, exit 2) if a generator left the restricted language.
pub fn assert_valid(world: &World, what: &str) {
    if let Some(why) = model::invalid_reason(world) {
        panic!("HARNESS-BUG: generator {what} produced a world outside the modelled language: {why}");
    }
}

pub fn expected_kind(world: &World) -> &'static str {
    match model::judge(world).expected {
        Expected::Rejected(_) => "rejected",
        Expected::Failed(_) => "failed",
        Expected::Report(_) => "report",
        Expected::Listing(_) => "listing",
    }
}
