//! The explicit, JSON-serialisable description of one simulated repository + invocation.
//!
//! A `World` is everything blockwatch can see: the tree, the argv, stdin, the environment, the Lua
//! scripts on disk and the behaviour of the AI endpoint. Nothing here is random: generators build
//! worlds from a PRNG, replay files store them verbatim, and the minimiser edits them directly.

use serde::{Deserialize, Serialize};
use std::collections::BTreeMap;

#[derive(Serialize, Deserialize, Clone, Debug, PartialEq, Default)]
pub struct World {
    pub files: Vec<FileSpec>,
    pub args: ArgsSpec,
    pub stdin: StdinSpec,
    pub env: EnvSpec,
    #[serde(default)]
    pub scripts: Vec<ScriptSpec>,
    /// Reply plan of the simulated endpoint, keyed by the unique token inside the condition.
    #[serde(default)]
    pub ai: BTreeMap<String, AiReply>,
    /// Directory (root-relative, "" = root) blockwatch is started from. Level B only.
    #[serde(default)]
    pub cwd: String,
    /// When set, every file outside the model's scope is poisoned (C15).
    #[serde(default)]
    pub poison_out_of_scope: bool,
    /// Lines of a top-level `.gitignore` (level B only; level A's walk simply omits the files
    /// flagged `ignored_by_vcs`).
    #[serde(default)]
    pub gitignore: Vec<String>,
    /// Unchanged context lines around the inserted line of `Insert` sections (`git diff -U<n>`;
    /// git's default is 3, `-U0` gives none).
    #[serde(default)]
    pub diff_context: usize,
    /// Sections a real `git diff` routinely carries besides text changes, about files that are not
    /// part of the world: "binary" (`Binary files a/x.png and b/x.png differ`) and "mode" (a
    /// mode change without hunks). They name nothing blockwatch can or should examine.
    #[serde(default)]
    pub diff_noise: Vec<String>,
}

#[derive(Serialize, Deserialize, Clone, Debug, PartialEq, Default)]
pub struct FileSpec {
    pub path: String,
    pub blocks: Vec<BlockSpec>,
    #[serde(default)]
    pub diff: FileDiff,
    /// Not visible to the directory walk: a dot-file/dot-directory or matched by .gitignore.
    #[serde(default)]
    pub unwalkable: bool,
    /// Every start tag of this file is written with a TAB (not a blank) after `<block`: any
    /// whitespace may follow the tag name.
    #[serde(default)]
    pub tab_tags: bool,
    /// The file starts with a UTF-8 byte order mark (as Windows editors write it).
    #[serde(default)]
    pub bom: bool,
    /// != 0: the start tags of this file use the other spellings the grammar allows (unquoted and
    /// single-quoted values, bare names, blanks around `=`), chosen per tag from this number.
    #[serde(default)]
    pub spelling: u64,
    /// != 0 (languages with `//` comments only): each tag of this file sits, chosen from this
    /// number, in a `//` line comment, a one-line `/* ... */` block comment or a `/** ... */` one.
    #[serde(default)]
    pub block_comments: u64,
    /// The language this file is written in when its name does not say so (`-E` mappings): an
    /// extension such as "md" or "py". None: the file's own extension decides.
    #[serde(default)]
    pub lang: Option<String>,
    /// The last line of the file is not terminated by a newline (diffs then carry git's
    /// `\\ No newline at end of file` marker after that line).
    #[serde(default)]
    pub no_final_newline: bool,
    /// Only with `diff: Added`: the path used to be a symbolic link (a "type change"). git then
    /// writes two sections for the one path, `deleted file mode 120000` and `new file mode 100644`.
    #[serde(default)]
    pub was_symlink: bool,
    /// The first line of the file ends in a comment of this many KiB of filler (large files: a
    /// generated table, a dump). `#`-comment languages only.
    #[serde(default)]
    pub pad_kib: usize,
    /// Markdown files the diff does not mention only: 1 = the whole file is the body of one list
    /// item (`- first line`, every other line indented by two blanks), so that every HTML comment
    /// is an `html_block` nested in `list > list_item` instead of a child of the document's section.
    #[serde(default)]
    pub md_nest: u8,
    /// Markdown files the diff does not mention only: the tags sit in link-reference-definition
    /// comments (`[//]: # (<block ...>)`) instead of HTML comments. Takes effect only where
    /// `md_ref_applies` says the file can be written that way.
    #[serde(default)]
    pub md_ref: bool,
}

/// Whether `f` is written with `[//]: # (...)` comments: a Markdown file outside the diff, plain
/// tag spelling, no one-comment blocks, and no parenthesis in any attribute value unless a
/// backslash precedes it (the title of a link reference definition ends at the first bare `)`).
pub fn md_ref_applies(f: &FileSpec) -> bool {
    if !f.md_ref || f.md_nest != 0 || f.spelling != 0 || f.tab_tags || !matches!(f.diff, FileDiff::None) {
        return false;
    }
    let w = f.written_as();
    if !(w.ends_with(".md") || w.ends_with(".markdown")) {
        return false;
    }
    let mut ok = true;
    for_each_block(&f.blocks, &mut |b| {
        if b.one_comment {
            ok = false;
        }
        for (_, v) in &b.attrs {
            let mut prev = ' ';
            for c in v.chars() {
                if (c == '(' || c == ')') && prev != '\\' {
                    ok = false;
                }
                prev = if prev == '\\' && c == '\\' { ' ' } else { c };
            }
            if v.ends_with('\\') {
                ok = false;
            }
        }
    });
    ok
}

/// What the symbolic link of a `was_symlink` file pointed to.
pub const OLD_LINK_TARGET: &str = "moved/elsewhere.txt";

impl FileSpec {
    /// The path-like key that decides comment syntax and wrapper of this file.
    pub fn written_as(&self) -> String {
        match &self.lang {
            Some(l) => format!("x.{l}"),
            None => self.path.clone(),
        }
    }
}

/// The one-line change an `Insert` section describes.
#[derive(Serialize, Deserialize, Clone, Debug, PartialEq, Default)]
pub enum LineEdit {
    /// Rendered line `line` was added.
    #[default]
    Inserted,
    /// Rendered line `line` replaces a line that read `old` (a "modified" line: `-old`, `+new`).
    Replaced { old: String },
    /// A line reading `old` that sat right in front of rendered line `line` was removed.
    Removed { old: String },
}

#[derive(Serialize, Deserialize, Clone, Debug, PartialEq, Default)]
pub enum FileDiff {
    /// The diff does not mention this file.
    #[default]
    None,
    /// The diff adds the whole file (every line is new).
    Added,
    /// The diff is one pure single-line insertion (-U0): rendered line number `line` is new.
    /// With `renamed_from`, the same diff also renames the file (git's "rename from/to" section):
    /// the old path no longer exists, the file named in the diff is the new one.
    /// `edit` says what happened at that place: the line is new (default), it replaces another
    /// line, or a line that used to sit right in front of rendered line `line` is gone.
    Insert {
        line: usize,
        #[serde(default)]
        renamed_from: Option<String>,
        #[serde(default)]
        edit: LineEdit,
        /// Further one-line changes of the same file, at other lines (several hunks).
        #[serde(default)]
        more: Vec<(usize, LineEdit)>,
    },
    /// The diff deletes the file; it does not exist in the tree.
    Deleted,
}

#[derive(Serialize, Deserialize, Clone, Debug, PartialEq, Default)]
pub struct BlockSpec {
    /// Attributes as written, in order; names are unique.
    pub attrs: Vec<(String, String)>,
    /// Content lines before the nested blocks.
    pub lines: Vec<String>,
    #[serde(default)]
    pub children: Vec<BlockSpec>,
    /// Content lines after the nested blocks.
    #[serde(default)]
    pub tail: Vec<String>,
    /// A block without any content whose start and end tag share ONE comment
    /// (`# <block name="x"> </block>`). Ignored when the block has content or nested blocks.
    #[serde(default)]
    pub one_comment: bool,
}

impl BlockSpec {
    pub fn attr(&self, name: &str) -> Option<&str> {
        self.attrs
            .iter()
            .find(|(k, _)| k == name)
            .map(|(_, v)| v.as_str())
    }
    pub fn has(&self, name: &str) -> bool {
        self.attr(name).is_some()
    }
    pub fn set_attr(&mut self, name: &str, value: &str) {
        if let Some(slot) = self.attrs.iter_mut().find(|(k, _)| k == name) {
            slot.1 = value.to_string();
        } else {
            self.attrs.push((name.to_string(), value.to_string()));
        }
    }
    pub fn remove_attr(&mut self, name: &str) {
        self.attrs.retain(|(k, _)| k != name);
    }
}

#[derive(Serialize, Deserialize, Clone, Debug, PartialEq, Default)]
pub struct ArgsSpec {
    #[serde(default)]
    pub list: bool,
    #[serde(default)]
    pub globs: Vec<String>,
    #[serde(default)]
    pub ignore: Vec<String>,
    #[serde(default)]
    pub enable: Vec<String>,
    #[serde(default)]
    pub disable: Vec<String>,
    #[serde(default)]
    pub extensions: Vec<(String, String)>,
    /// Spell flags in their long form (`--disable`) instead of the short one (`-d`).
    #[serde(default)]
    pub long_flags: bool,
    /// Put the flags after the positional globs instead of before.
    #[serde(default)]
    pub flags_last: bool,
    /// Write long flags as one token (`--disable=keep-sorted`).
    #[serde(default)]
    pub joined_flags: bool,
    /// Write `--` between the flags and the positional globs (flags-first order only).
    #[serde(default)]
    pub dashdash: bool,
    /// With `list`: `-e`/`-E` flags in front of the subcommand, `-d`/`--ignore` behind its globs.
    #[serde(default)]
    pub split_flags: bool,
    /// With `list`, two or more globs and at least one flag: the first glob stands in front of the
    /// flags and the subcommand (`a/** --ignore x list b/**`); positional globs on both sides of
    /// `list` add up.
    #[serde(default)]
    pub split_globs: bool,
}

impl ArgsSpec {
    /// argv without the program name.
    pub fn argv(&self) -> Vec<String> {
        let mut flags = Vec::new();
        let joined = self.joined_flags;
        let mut put = |long: &str, short: Option<&str>, value: String| {
            match (self.long_flags || short.is_none(), short) {
                (true, _) if joined => flags.push(format!("{long}={value}")),
                (true, _) => {
                    flags.push(long.to_string());
                    flags.push(value);
                }
                // a short flag takes its value in the next token or attached (`-dkeep-sorted`)
                (false, Some(s)) if joined && !value.is_empty() && !value.starts_with('=') => {
                    flags.push(format!("{s}{value}"));
                }
                (false, Some(s)) => {
                    flags.push(s.to_string());
                    flags.push(value);
                }
                (false, None) => unreachable!(),
            }
        };
        if self.list && self.split_flags {
            for v in &self.enable {
                put("--enable", Some("-e"), v.clone());
            }
            for (k, v) in &self.extensions {
                put("--extension", Some("-E"), format!("{k}={v}"));
            }
            for v in &self.disable {
                put("--disable", Some("-d"), v.clone());
            }
            for g in &self.ignore {
                put("--ignore", None, g.clone());
            }
        } else {
            for v in &self.disable {
                put("--disable", Some("-d"), v.clone());
            }
            for v in &self.enable {
                put("--enable", Some("-e"), v.clone());
            }
            for g in &self.ignore {
                put("--ignore", None, g.clone());
            }
            for (k, v) in &self.extensions {
                put("--extension", Some("-E"), format!("{k}={v}"));
            }
        }
        let mut out = Vec::new();
        if self.list && self.split_globs && self.globs.len() >= 2 && !flags.is_empty() {
            out.push(self.globs[0].clone());
            out.extend(flags);
            out.push("list".to_string());
            out.extend(self.globs[1..].iter().cloned());
            return out;
        }
        if self.list && self.split_flags {
            // the flags are global: they may stand on either side of the subcommand, or on both
            let split = flags.iter().position(|f| f.starts_with("-d") || f.starts_with("--disable") || f.starts_with("--ignore")).unwrap_or(flags.len());
            out.extend(flags[..split].iter().cloned());
            out.push("list".to_string());
            out.extend(self.globs.clone());
            out.extend(flags[split..].iter().cloned());
            return out;
        }
        if self.list {
            if !self.flags_last {
                out.extend(flags.clone());
            }
            out.push("list".to_string());
            out.extend(self.globs.clone());
            if self.flags_last {
                out.extend(flags);
            }
        } else if self.flags_last {
            out.extend(self.globs.clone());
            out.extend(flags);
        } else {
            out.extend(flags);
            if self.dashdash && !self.globs.is_empty() {
                out.push("--".to_string());
            }
            out.extend(self.globs.clone());
        }
        out
    }
}

#[derive(Serialize, Deserialize, Clone, Debug, PartialEq, Default)]
pub enum StdinSpec {
    /// Interactive: no diff is read (`BLOCKWATCH_TERMINAL_MODE`).
    #[default]
    Terminal,
    /// A pipe carrying the diff assembled from the files' `diff` fields (possibly empty). The order
    /// of the file sections is nondeterminism and lives in the plan.
    Piped,
}

#[derive(Serialize, Deserialize, Clone, Debug, PartialEq, Default)]
pub struct EnvSpec {
    /// BLOCKWATCH_AI_API_KEY (None = unset).
    #[serde(default)]
    pub ai_key: Option<String>,
    /// BLOCKWATCH_AI_MODEL (None = unset, blockwatch's default model is used).
    #[serde(default)]
    pub ai_model: Option<String>,
    /// Path prefix appended to the endpoint's base URL (e.g. "/v1" or "").
    #[serde(default)]
    pub ai_base_path: String,
    /// BLOCKWATCH_LUA_MODE (None = unset).
    #[serde(default)]
    pub lua_mode: Option<String>,
    /// The endpoint refuses connections.
    #[serde(default)]
    pub ai_refuse_connections: bool,
    /// Simulated endpoint keeps connections alive between requests.
    #[serde(default)]
    pub ai_keep_alive: bool,
    /// Unrelated OPENAI_* variables of some other tool are present in the environment
    /// (OPENAI_API_KEY, OPENAI_ADMIN_KEY, OPENAI_BASE_URL, ...): blockwatch is configured by the
    /// BLOCKWATCH_AI_* variables only.
    #[serde(default)]
    pub ambient_openai_env: bool,
}

#[derive(Serialize, Deserialize, Clone, Debug, PartialEq)]
pub struct ScriptSpec {
    /// Path as written in the `check-lua` attribute (relative to the scratch cwd / repo root).
    pub path: String,
    pub kind: ScriptKind,
}

#[derive(Serialize, Deserialize, Clone, Copy, Debug, PartialEq, Eq, PartialOrd, Ord)]
pub enum ScriptKind {
    /// The generic well-behaved script: parameters come from the block's `x-*` attributes.
    Good,
    SyntaxError,
    TopLevelError,
    RuntimeError,
    ErrorTable,
    NoValidate,
    ValidateNotFunction,
    ReturnsNumber,
    ReturnsBoolean,
    ReturnsTable,
    /// Fails only after `x-yield` scheduling points (so that it can finish after its siblings).
    LateRuntimeError,
    /// The file does not exist.
    Missing,
    /// The path is a directory.
    Directory,
    /// The file is not valid UTF-8.
    NotUtf8,
    /// Zero bytes.
    EmptyFile,
}

impl ScriptKind {
    pub fn is_fault(self) -> bool {
        !matches!(self, ScriptKind::Good)
    }
    pub const FAULTS: &'static [ScriptKind] = &[
        ScriptKind::SyntaxError,
        ScriptKind::TopLevelError,
        ScriptKind::RuntimeError,
        ScriptKind::ErrorTable,
        ScriptKind::NoValidate,
        ScriptKind::ValidateNotFunction,
        ScriptKind::ReturnsNumber,
        ScriptKind::ReturnsBoolean,
        ScriptKind::ReturnsTable,
        ScriptKind::LateRuntimeError,
        ScriptKind::Missing,
        ScriptKind::Directory,
        ScriptKind::NotUtf8,
        ScriptKind::EmptyFile,
    ];
}

#[derive(Serialize, Deserialize, Clone, Debug, PartialEq)]
pub enum AiReply {
    /// 200 with a well-formed completion whose content is this text.
    Text(String),
    /// Non-2xx status with a JSON error body (OpenAI style) or a plain-text body.
    Status { code: u16, json_body: bool },
    /// 200 whose body is not JSON.
    InvalidJson,
    /// 200 with `"choices": []`.
    NoChoices,
    /// 200 with `"content": null`.
    NullContent,
    /// 200 with an empty body.
    EmptyBody,
    /// The connection is closed (EOF) after `after` bytes of an otherwise valid response.
    CloseAfter { after: usize },
    /// The connection is reset (ECONNRESET) after `after` bytes of an otherwise valid response.
    ResetAfter { after: usize },
    /// 429 whose error type is `insufficient_quota`: the client library does not retry it.
    QuotaExceeded,
    /// The first `times` requests for this prompt are answered with a retryable status (429 "rate
    /// limited", or a 5xx), every later one with `then`. The client library retries with
    /// exponential backoff (0.5 s growing to 60 s); the simulated clock makes that free.
    RetryThen { code: u16, times: u32, then: Box<AiReply> },
    /// Every request for this prompt is answered with a retryable status: the retries must give up
    /// (the library's budget is 15 minutes) and the run must fail.
    RetryForever { code: u16 },
}

impl AiReply {
    pub fn is_fault(&self) -> bool {
        match self {
            AiReply::Text(_) => false,
            AiReply::RetryThen { then, .. } => then.is_fault(),
            _ => true,
        }
    }
    /// Extra requests the client library may send for one block because of retryable statuses
    /// (None: unbounded, the endpoint never stops sending them).
    pub fn retry_allowance(&self) -> Option<u32> {
        match self {
            AiReply::RetryThen { times, .. } => Some(*times),
            AiReply::RetryForever { .. } => None,
            _ => Some(0),
        }
    }
    pub fn uses_retries(&self) -> bool {
        matches!(self, AiReply::RetryThen { .. } | AiReply::RetryForever { .. })
    }
    pub fn kind_name(&self) -> &'static str {
        match self {
            AiReply::Text(_) => "text",
            AiReply::Status { json_body: true, .. } => "status_json",
            AiReply::Status { json_body: false, .. } => "status_plain",
            AiReply::InvalidJson => "invalid_json",
            AiReply::NoChoices => "no_choices",
            AiReply::NullContent => "null_content",
            AiReply::EmptyBody => "empty_body",
            AiReply::CloseAfter { .. } => "close_after",
            AiReply::ResetAfter { .. } => "reset_after",
            AiReply::QuotaExceeded => "quota_exceeded",
            AiReply::RetryThen { .. } => "retry_then_reply",
            AiReply::RetryForever { .. } => "retry_forever",
        }
    }
}

// ---------------------------------------------------------------------------------------------
// Rendering

/// The key that decides how a file is *written* (comment leader, wrapper): its last extension,
/// except that `go.mod` / `go.sum` / `go.work` — and look-alikes such as `legacy.mod`, which
/// blockwatch must skip — are written like Go files.
pub fn lang_key(path: &str) -> &str {
    let name = path.rsplit('/').next().unwrap_or(path);
    let ext = name.rsplit('.').next().unwrap_or("");
    match ext {
        "mod" | "sum" | "work" => "go",
        other => other,
    }
}

pub fn is_wrapped(path: &str) -> bool {
    wrapper_for(path).is_some()
}

/// Comment leader for a path (by extension). Only languages the generators use are listed.
pub fn comment_leader(path: &str) -> &'static str {
    let ext = lang_key(path);
    match ext {
        "rs" | "js" | "go" | "ts" | "java" | "c" | "cpp" | "swift" | "kt" | "cs" | "php" => "//",
        "md" | "markdown" | "html" => "<!--",
        _ => "#",
    }
}

/// Languages whose content lines must sit inside an array literal to be valid syntax.
fn wrapper_for(path: &str) -> Option<(&'static str, &'static str)> {
    let ext = lang_key(path);
    match ext {
        "rs" => Some(("const ITEMS: &[&str] = &[", "];")),
        "js" | "ts" => Some(("const items = [", "];")),
        "go" => Some(("var items = []string{", "}")),
        "java" => Some(("class Items { String[] items = {", "}; }")),
        "cs" => Some(("class Items { string[] items = {", "}; }")),
        "c" | "cpp" => Some(("const char *items[] = {", "};")),
        "kt" => Some(("val items = listOf(", ")")),
        "swift" => Some(("let items = [", "]")),
        "php" => Some(("<?php $items = [", "];")),
        "toml" => Some(("items = [", "]")),
        _ => None,
    }
}

pub fn quote_attr(value: &str) -> String {
    if value.contains('"') {
        format!("'{value}'")
    } else {
        format!("\"{value}\"")
    }
}

pub fn render_start_tag(b: &BlockSpec) -> String {
    render_start_tag_sep(b, ' ')
}

pub fn render_start_tag_sep(b: &BlockSpec, first_sep: char) -> String {
    render_start_tag_spelled(b, first_sep, 0)
}

/// `spelling` != 0 picks, per attribute, one of the other spellings the tag grammar allows for
/// the same (name, value): an unquoted value (letters, digits, `-`, `_` only), single quotes, a
/// bare name for an empty value, blanks around `=`, several blanks or a TAB between attributes.
pub fn render_start_tag_spelled(b: &BlockSpec, first_sep: char, spelling: u64) -> String {
    render_start_tag_laid_out(b, first_sep, spelling, false)
}

/// `multiline`: the blanks between attributes may be line breaks (only where the comment that
/// holds the tag can span several lines).
pub fn render_start_tag_laid_out(b: &BlockSpec, first_sep: char, spelling: u64, multiline: bool) -> String {
    let mut s = String::from("<block");
    if b.attrs.is_empty() && first_sep != ' ' {
        s.push(first_sep);
    }
    let mut rng = crate::rng::Rng::new(spelling);
    for (i, (k, v)) in b.attrs.iter().enumerate() {
        if spelling == 0 {
            s.push(if i == 0 { first_sep } else { ' ' });
            s.push_str(k);
            s.push('=');
            s.push_str(&quote_attr(v));
            continue;
        }
        match (i, rng.below(6)) {
            (0, 2 | 3) if multiline => s.push_str("\n    "),
            (0, _) => s.push(first_sep),
            (_, 2 | 3) if multiline => s.push_str("\n    "),
            (_, 0) => s.push_str("  "),
            (_, 1) => s.push('\t'),
            _ => s.push(' '),
        }
        s.push_str(k);
        let word = !v.is_empty() && v.chars().all(|c| c.is_alphanumeric() || c == '-' || c == '_');
        let roll = rng.below(12);
        if v.is_empty() && roll < 5 {
            continue; // a bare name: the value is the empty string
        }
        s.push_str(match rng.below(8) {
            0 => " = ",
            1 => "= ",
            2 => " =",
            _ => "=",
        });
        if word && roll < 5 {
            s.push_str(v);
        } else if !v.contains('\'') && roll < 8 {
            s.push('\'');
            s.push_str(v);
            s.push('\'');
        } else {
            s.push_str(&quote_attr(v));
        }
    }
    // blanks may precede the closing `>`
    if spelling != 0 {
        match rng.below(6) {
            0 => s.push(' '),
            1 => s.push_str("  "),
            _ => {}
        }
    }
    s.push('>');
    s
}

/// The end tag; `spelling` != 0 picks one of the spellings the grammar allows (blanks around `/`
/// and `block`).
pub fn render_end_tag_spelled(spelling: u64) -> &'static str {
    if spelling == 0 {
        return "</block>";
    }
    match crate::rng::mix_n(spelling, 77) % 8 {
        0 => "< /block>",
        1 => "</ block>",
        2 => "</block >",
        3 => "< / block >",
        4 => "<\t/block>",
        _ => "</block>",
    }
}

/// Where a block ended up in the rendered file.
#[derive(Clone, Debug, PartialEq)]
pub struct BlockLayout {
    /// Pre-order index path, e.g. [1, 0] = first child of the second top-level block.
    pub path: Vec<usize>,
    /// 1-based line of the start tag.
    pub start_line: usize,
    /// 1-based line of the end tag.
    pub end_line: usize,
    /// Exact content (text between the start-tag comment and the end-tag comment).
    pub content: String,
    pub attrs: Vec<(String, String)>,
    pub has_children: bool,
    /// Lines the comment with the start tag spans (1 unless the tag is written over several
    /// lines of a block comment); the content starts behind the last of them.
    pub tag_lines: usize,
}

impl BlockLayout {
    pub fn attr(&self, name: &str) -> Option<&str> {
        self.attrs
            .iter()
            .find(|(k, _)| k == name)
            .map(|(_, v)| v.as_str())
    }
    /// Whether rendered line `l` belongs to the comment that holds the start tag.
    pub fn is_start_tag_line(&self, l: usize) -> bool {
        self.start_line <= l && l < self.start_line + self.tag_lines
    }
    pub fn name_display(&self) -> &str {
        self.attr("name").unwrap_or("(unnamed)")
    }
}

#[derive(Clone, Debug)]
pub struct RenderedFile {
    pub path: String,
    /// The text does not end with a newline.
    pub no_final_newline: bool,
    pub text: String,
    pub lines: Vec<String>,
    pub blocks: Vec<BlockLayout>,
}

pub const POISON_TAIL: &str = "<block name=\"poison-unclosed\" keep-sorted=\"asc\">";

/// Wraps a tag in a comment of the file's language.
/// Whether the comment `comment()` would write at this place can span several lines.
fn comment_is_block(leader: &str, block_comments: u64, nth: usize) -> bool {
    leader == "<!--" || (block_comments != 0 && leader == "//" && crate::rng::mix_n(block_comments, nth as u64) % 4 != 0)
}

fn comment(leader: &str, block_comments: u64, nth: usize, tag: &str) -> String {
    if leader == "[//]:" {
        return format!("[//]: # ({tag})");
    }
    if leader == "<!--" {
        return format!("<!-- {tag} -->");
    }
    if block_comments == 0 || leader != "//" {
        return format!("{leader} {tag}");
    }
    match crate::rng::mix_n(block_comments, nth as u64) % 4 {
        0 => format!("// {tag}"),
        1 => format!("/** {tag} */"),
        _ => format!("/* {tag} */"),
    }
}

fn render_block(
    b: &BlockSpec,
    tab_tags: bool,
    spelling: u64,
    block_comments: u64,
    leader: &str,
    idx_path: &mut Vec<usize>,
    lines: &mut Vec<String>,
    out: &mut Vec<BlockLayout>,
) {
    // a link reference definition cannot interrupt a paragraph: a blank line goes in front of it
    let ref_gap = |lines: &mut Vec<String>| {
        if leader == "[//]:" && lines.last().is_some_and(|l| !l.trim().is_empty() && !l.starts_with("[//]:")) {
            lines.push(String::new());
        }
    };
    ref_gap(lines);
    let slot = out.len();
    let start_line = lines.len() + 1;
    let spell = if spelling == 0 {
        0
    } else {
        idx_path.iter().fold(spelling, |a, i| crate::rng::mix_n(a, *i as u64 + 1)) | 1
    };
    // other text may stand in the comment in front of a tag - also text with a `<` in it
    let lead = |k: u64| -> &'static str {
        if spell == 0 {
            return "";
        }
        match crate::rng::mix_n(spell, k) % 9 {
            0 => "loop while i<n ",
            1 => "see a<b, x <- y: ",
            2 => "<p> note </p> ",
            3 => "gr\u{f6}\u{df}er als 10 \u{2013} \u{4e16}\u{754c}: ",
            _ => "",
        }
    };
    if b.one_comment && b.lines.is_empty() && b.children.is_empty() && b.tail.is_empty() {
        let tag = render_start_tag_laid_out(b, if tab_tags { '\t' } else { ' ' }, spell, false);
        let tag = format!("{}{tag}", lead(21));
        let gap = if spell % 3 == 0 { "" } else { " " };
        lines.push(comment(leader, block_comments, lines.len(), &format!("{tag}{gap}{}", render_end_tag_spelled(spell))));
        out.push(BlockLayout {
            path: idx_path.clone(),
            start_line,
            end_line: start_line,
            content: String::new(),
            attrs: b.attrs.clone(),
            has_children: false,
            tag_lines: 1,
        });
        return;
    }
    let multiline = spell != 0
        && comment_is_block(leader, block_comments, lines.len())
        && crate::rng::mix_n(spell, 5) % 2 == 0;
    let tag_comment = comment(
        leader,
        block_comments,
        lines.len(),
        &format!("{}{}", lead(21), render_start_tag_laid_out(b, if tab_tags { '\t' } else { ' ' }, spell, multiline)),
    );
    let tag_lines = tag_comment.split('\n').count();
    for l in tag_comment.split('\n') {
        lines.push(l.to_string());
    }
    out.push(BlockLayout {
        path: idx_path.clone(),
        start_line,
        end_line: 0,
        content: String::new(),
        attrs: b.attrs.clone(),
        has_children: !b.children.is_empty(),
        tag_lines,
    });
    for l in &b.lines {
        lines.push(l.clone());
    }
    for (i, c) in b.children.iter().enumerate() {
        idx_path.push(i);
        render_block(c, tab_tags, spelling, block_comments, leader, idx_path, lines, out);
        idx_path.pop();
    }
    for l in &b.tail {
        lines.push(l.clone());
    }
    ref_gap(lines);
    let end_line = lines.len() + 1;
    lines.push(comment(leader, block_comments, lines.len(), &format!("{}{}", lead(22), render_end_tag_spelled(spell))));
    // content = "\n" + every line strictly between the tags, each followed by "\n" (the node of a
    // link reference definition includes its line break: no leading "\n" there)
    let mut content = String::from(if leader == "[//]:" { "" } else { "\n" });
    for l in &lines[start_line + tag_lines - 1..end_line - 1] {
        content.push_str(l);
        content.push('\n');
    }
    out[slot].end_line = end_line;
    out[slot].content = content;
}

pub fn render_file(f: &FileSpec, poisoned: bool) -> RenderedFile {
    let leader = if md_ref_applies(f) { "[//]:" } else { comment_leader(&f.written_as()) };
    let wrapper = wrapper_for(&f.written_as());
    let mut lines: Vec<String> = Vec::new();
    let mut blocks = Vec::new();
    match wrapper {
        Some((open, _)) => lines.push(open.to_string()),
        None => lines.push("h0=0".to_string()),
    }
    if f.pad_kib > 0 && leader == "#" && wrapper.is_none() {
        lines[0].push_str("  # ");
        lines[0].push_str(&"filler ".repeat(f.pad_kib * 1024 / 7 + 1));
    }
    if f.bom {
        lines[0].insert(0, '\u{feff}');
    }
    for (i, b) in f.blocks.iter().enumerate() {
        let mut p = vec![i];
        render_block(b, f.tab_tags, f.spelling, f.block_comments, leader, &mut p, &mut lines, &mut blocks);
        if wrapper.is_none() {
            lines.push(String::new());
        }
    }
    if let Some((_, close)) = wrapper {
        lines.push(close.to_string());
    }
    if poisoned {
        if leader == "[//]:" && lines.last().is_some_and(|l| !l.is_empty()) {
            lines.push(String::new());
        }
        lines.push(comment(leader, 0, 0, POISON_TAIL));
        lines.push("zz".to_string());
        lines.push("aa".to_string());
    }
    if f.md_nest == 1 && leader == "<!--" && !f.bom && matches!(f.diff, FileDiff::None) {
        // one list item: the indentation in front of an end-tag comment belongs to the content
        for (i, l) in lines.iter_mut().enumerate() {
            if i == 0 {
                l.insert_str(0, "- ");
            } else if !l.is_empty() {
                l.insert_str(0, "  ");
            }
        }
        for b in blocks.iter_mut() {
            if b.end_line == b.start_line {
                continue;
            }
            let mut content = String::from("\n");
            for l in &lines[b.start_line + b.tag_lines - 1..b.end_line - 1] {
                content.push_str(l);
                content.push('\n');
            }
            content.push_str("  ");
            b.content = content;
        }
    }
    if f.no_final_newline && !poisoned {
        // the last line must be a real one: an empty last line without terminator does not exist
        while lines.last().is_some_and(|l| l.is_empty()) {
            lines.pop();
        }
    }
    let mut text = lines.join("\n");
    if !f.no_final_newline || poisoned {
        text.push('\n');
    }
    RenderedFile {
        path: f.path.clone(),
        no_final_newline: f.no_final_newline && !poisoned,
        text,
        lines,
        blocks,
    }
}

// ---------------------------------------------------------------------------------------------
// Diff writer (the two shapes of DESIGN §2.5 plus deleted-file sections)

fn diff_path(p: &str) -> String {
    // git appends a TAB after names containing a space in the ---/+++ lines
    if p.contains(' ') {
        format!("{p}\t")
    } else {
        p.to_string()
    }
}

/// `flip`: of the two sections of a type change, write the new-file one first.
pub fn render_diff_section(f: &FileSpec, rendered: &RenderedFile, ctx: usize, flip: bool) -> Option<String> {
    let p = &f.path;
    match &f.diff {
        FileDiff::None => None,
        FileDiff::Added => {
            let n = rendered.lines.len();
            let mut s = format!(
                "diff --git a/{p} b/{p}\nnew file mode 100644\nindex 0000000..1111111\n--- /dev/null\n+++ b/{}\n",
                diff_path(p)
            );
            if n == 1 {
                s.push_str("@@ -0,0 +1 @@\n");
            } else {
                s.push_str(&format!("@@ -0,0 +1,{n} @@\n"));
            }
            for l in &rendered.lines {
                s.push('+');
                s.push_str(l);
                s.push('\n');
            }
            if rendered.no_final_newline {
                s.push_str(NO_NEWLINE_MARKER);
            }
            if f.was_symlink {
                let gone = format!(
                    "diff --git a/{p} b/{p}\ndeleted file mode 120000\nindex 1111111..0000000\n--- a/{}\n+++ /dev/null\n@@ -1 +0,0 @@\n-{OLD_LINK_TARGET}\n{NO_NEWLINE_MARKER}",
                    diff_path(p)
                );
                s = if flip { format!("{s}{gone}") } else { format!("{gone}{s}") };
            }
            Some(s)
        }
        FileDiff::Insert { renamed_from, .. } => {
            // the edit script is known by construction: one op per old/new line
            let n = rendered.lines.len();
            let edits = f.diff.edits();
            let mut ops: Vec<(char, &str)> = Vec::new();
            for i in 1..=n {
                let text = rendered.lines[i - 1].as_str();
                match edits.iter().find(|e| e.0 == i).map(|e| &e.1) {
                    Some(LineEdit::Inserted) => ops.push(('+', text)),
                    Some(LineEdit::Replaced { old }) => {
                        ops.push(('-', old.as_str()));
                        ops.push(('+', text));
                    }
                    Some(LineEdit::Removed { old }) => {
                        ops.push(('-', old.as_str()));
                        ops.push((' ', text));
                    }
                    None => ops.push((' ', text)),
                }
            }
            if edits.is_empty() || edits.iter().any(|e| e.0 == 0 || e.0 > n) {
                return None;
            }
            // group the changes into hunks: two changes share a hunk when at most 2*ctx unchanged
            // lines lie between them
            let changed: Vec<usize> = (0..ops.len()).filter(|&k| ops[k].0 != ' ').collect();
            let mut groups: Vec<(usize, usize)> = Vec::new();
            for &k in &changed {
                match groups.last_mut() {
                    Some((_, b)) if k - *b - 1 <= 2 * ctx => *b = k,
                    _ => groups.push((k, k)),
                }
            }
            let span = |start: usize, count: usize| {
                if count == 1 { format!("{start}") } else { format!("{start},{count}") }
            };
            let mut hunk = String::new();
            for (a, b) in groups {
                let from = a.saturating_sub(ctx);
                let to = (b + ctx).min(ops.len() - 1);
                let old_before = ops[..from].iter().filter(|o| o.0 != '+').count();
                let new_before = ops[..from].iter().filter(|o| o.0 != '-').count();
                let old_count = ops[from..=to].iter().filter(|o| o.0 != '+').count();
                let new_count = ops[from..=to].iter().filter(|o| o.0 != '-').count();
                let old_start = if old_count == 0 { old_before } else { old_before + 1 };
                let new_start = if new_count == 0 { new_before } else { new_before + 1 };
                hunk.push_str(&format!("@@ -{} +{} @@\n", span(old_start, old_count), span(new_start, new_count)));
                for (k, (c, t)) in ops[from..=to].iter().enumerate() {
                    hunk.push_str(&format!("{c}{t}\n"));
                    if rendered.no_final_newline && from + k == ops.len() - 1 {
                        hunk.push_str(NO_NEWLINE_MARKER);
                    }
                }
            }
            match renamed_from {
                None => Some(format!(
                    "diff --git a/{p} b/{p}\nindex 2222222..3333333 100644\n--- a/{}\n+++ b/{}\n{hunk}",
                    diff_path(p),
                    diff_path(p),
                )),
                Some(old) => Some(format!(
                    "diff --git a/{old} b/{p}\nsimilarity index 90%\nrename from {old}\nrename to {p}\nindex 2222222..3333333 100644\n--- a/{}\n+++ b/{}\n{hunk}",
                    diff_path(old),
                    diff_path(p),
                )),
            }
        }
        FileDiff::Deleted => {
            let n = rendered.lines.len();
            let mut s = format!(
                "diff --git a/{p} b/{p}\ndeleted file mode 100644\nindex 1111111..0000000\n--- a/{}\n+++ /dev/null\n",
                diff_path(p)
            );
            if n == 1 {
                s.push_str("@@ -1 +0,0 @@\n");
            } else {
                s.push_str(&format!("@@ -1,{n} +0,0 @@\n"));
            }
            for l in &rendered.lines {
                s.push('-');
                s.push_str(l);
                s.push('\n');
            }
            if rendered.no_final_newline {
                s.push_str(NO_NEWLINE_MARKER);
            }
            Some(s)
        }
    }
}

/// The old text of a `Replaced` edit that stands for "the start tag on this line was re-written":
/// a run of tildes, which shares no character with any generated tag.
pub fn is_tag_rewrite(old: &str) -> bool {
    (old.len() >= 3 && old.bytes().all(|b| b == b'~')) || old.contains(DROPPED_ATTR)
}

/// The other way a start tag line changes: its last attribute was dropped. The old line is the
/// new one with this text in front of the tag's closing `>`; the character-level difference is a
/// pure deletion, which blockwatch attributes to the character that follows it - the `>`, still
/// part of the tag.
pub const DROPPED_ATTR: &str = " zz9=q7";

/// Position of the closing `>` of the start tag on a rendered single-line tag line (None when the
/// line does not end in the tag, optionally followed by a block-comment terminator).
pub fn closing_angle(line: &str) -> Option<usize> {
    let body = line.strip_suffix(" -->").or_else(|| line.strip_suffix(" */")).unwrap_or(line);
    body.ends_with('>').then(|| body.len() - 1)
}

/// The old text of a tag line whose last attribute was dropped (see `DROPPED_ATTR`).
pub fn with_dropped_attr(line: &str) -> Option<String> {
    let p = closing_angle(line)?;
    // blanks in front of `>` would move the deletion away from it: keep the case crisp
    if line[..p].ends_with(' ') || line[..p].ends_with('\t') {
        return None;
    }
    Some(format!("{}{DROPPED_ATTR}{}", &line[..p], &line[p..]))
}

impl FileDiff {
    /// Every one-line change of an `Insert` section, by rendered line.
    pub fn edits(&self) -> Vec<(usize, LineEdit)> {
        match self {
            FileDiff::Insert { line, edit, more, .. } => {
                let mut v = vec![(*line, edit.clone())];
                v.extend(more.iter().cloned());
                v.sort_by_key(|e| e.0);
                v
            }
            _ => Vec::new(),
        }
    }
}

const NO_NEWLINE_MARKER: &str = "\\ No newline at end of file\n";

/// The extra sections of `World::diff_noise`.
pub fn noise_section(kind: &str, n: usize) -> String {
    match kind {
        "binary" => format!(
            "diff --git a/assets/logo{n}.png b/assets/logo{n}.png\nindex 2b379ce..d51e4ba 100644\nBinary files a/assets/logo{n}.png and b/assets/logo{n}.png differ\n"
        ),
        "new-binary" => format!(
            "diff --git a/assets/new{n}.png b/assets/new{n}.png\nnew file mode 100644\nindex 0000000..d51e4ba\nBinary files /dev/null and b/assets/new{n}.png differ\n"
        ),
        _ => format!("diff --git a/tools/run{n}.bin b/tools/run{n}.bin\nold mode 100644\nnew mode 100755\n"),
    }
}

impl World {
    pub fn is_terminal(&self) -> bool {
        matches!(self.stdin, StdinSpec::Terminal)
    }

    /// `core` (the sections about the world's files) with the noise sections put around it.
    pub fn with_noise(&self, core: String, seed: u64) -> String {
        let mut head = String::new();
        let mut tail = String::new();
        for (i, k) in self.diff_noise.iter().enumerate() {
            let sec = noise_section(k, i);
            if crate::rng::mix_n(seed | 1, i as u64) % 2 == 0 {
                head.push_str(&sec);
            } else {
                tail.push_str(&sec);
            }
        }
        format!("{head}{core}{tail}")
    }

    /// The bytes piped to stdin (None in terminal mode); sections in `order` (file indices).
    pub fn stdin_text(&self, rendered: &[RenderedFile], order: &[usize]) -> Option<String> {
        match &self.stdin {
            StdinSpec::Terminal => None,
            StdinSpec::Piped => {
                let mut s = String::new();
                for (k, &i) in order.iter().enumerate() {
                    if let Some(sec) = render_diff_section(&self.files[i], &rendered[i], self.diff_context, k % 2 == 1) {
                        s.push_str(&sec);
                    }
                }
                Some(s)
            }
        }
    }
}

/// Visits every block of a file in pre-order.
pub fn for_each_block<'a>(blocks: &'a [BlockSpec], f: &mut dyn FnMut(&'a BlockSpec)) {
    for b in blocks {
        f(b);
        for_each_block(&b.children, f);
    }
}

pub fn for_each_block_mut(blocks: &mut [BlockSpec], f: &mut dyn FnMut(&mut BlockSpec)) {
    for b in blocks {
        f(b);
        for_each_block_mut(&mut b.children, f);
    }
}
