//! bwsim — deterministic simulation with fault injection for mennanov/blockwatch.
//!
//! Sub-commands (all driven by /verif/bin/check):
//!   run      --prop ID --tier quick|thorough --seed N --start I --count N --stride K --offset J
//!            [--level a|b|ab] [--replay-dir DIR] [--budget-s S]
//!   replay   FILE
//!   dump     --prop ID --seed N --index I [--tier T]
//!   loghash  --prop ID --seed N --start I --count N      (determinism self-test helper)

mod exec;
mod gate;
mod genw;
mod hashseed;
mod levelb;
mod lua;
mod model;
mod net;
mod oracle;
mod props;
mod rng;
mod shrink;
mod simfs;
mod worker;
mod world;

use serde::{Deserialize, Serialize};
use std::collections::BTreeMap;
use std::io::Write;
use std::time::Instant;

#[derive(Serialize, Deserialize, Clone, Debug)]
pub struct ReplayFile {
    pub property: String,
    pub level: String,
    pub seed: u64,
    pub scenario_index: u64,
    pub clause: String,
    pub detail: String,
    pub signature: String,
    pub minimised: bool,
    pub shrink_steps: usize,
    pub world: world::World,
    pub plan: exec::Plan,
    pub expected: model::Expected,
    pub observed: serde_json::Value,
    pub event_log: serde_json::Value,
    #[serde(default)]
    pub reproduced: u32,
    #[serde(default)]
    pub tags: Vec<String>,
}

fn arg<'a>(args: &'a [String], name: &str) -> Option<&'a str> {
    args.iter()
        .position(|a| a == name)
        .and_then(|i| args.get(i + 1))
        .map(|s| s.as_str())
}

fn arg_u64(args: &[String], name: &str, default: u64) -> u64 {
    arg(args, name).and_then(|v| v.parse().ok()).unwrap_or(default)
}

/// Re-executes the process with address-space randomisation off, so that nothing that leaks an
/// address (Lua's `table: 0x…` error texts, pointer-keyed orderings in dependencies) can differ
/// between two executions of the same (world, plan).
fn disable_aslr() {
    if std::env::var_os("BWSIM_NOASLR").is_some() {
        return;
    }
    // SAFETY: plain libc calls at process start, before any thread exists.
    unsafe {
        const ADDR_NO_RANDOMIZE: libc::c_ulong = 0x0040000;
        let cur = libc::personality(0xffff_ffff);
        if cur == -1 || libc::personality(cur as libc::c_ulong | ADDR_NO_RANDOMIZE) == -1 {
            return;
        }
        std::env::set_var("BWSIM_NOASLR", "1");
    }
    use std::os::unix::process::CommandExt;
    let exe = std::env::current_exe().unwrap_or_else(|_| "/proc/self/exe".into());
    let err = std::process::Command::new(exe).args(std::env::args_os().skip(1)).exec();
    eprintln!("bwsim: re-exec without ASLR failed ({err}); continuing with ASLR");
}

fn main() {
    disable_aslr();
    let args: Vec<String> = std::env::args().collect();
    let cmd = args.get(1).map(|s| s.as_str()).unwrap_or("");
    let code = match cmd {
        "run" => cmd_run(&args),
        "replay" => cmd_replay(&args),
        "dump" => cmd_dump(&args),
        "render" => cmd_render(&args),
        "loghash" => cmd_loghash(&args),
        _ => {
            eprintln!("usage: bwsim run|replay|dump|loghash ...");
            2
        }
    };
    worker::cleanup_scratch();
    std::process::exit(code);
}

fn cmd_dump(args: &[String]) -> i32 {
    let prop = arg(args, "--prop").unwrap_or("C11");
    let seed = arg_u64(args, "--seed", 1);
    let idx = arg_u64(args, "--index", 0);
    let thorough = arg(args, "--tier") == Some("thorough");
    let sc = props::scenario(prop, props::scenario_seed(seed, prop, idx), thorough);
    for (w, p) in &sc.runs {
        let j = model::judge(w);
        println!("{}", serde_json::to_string_pretty(&serde_json::json!({"world": w, "plan": p, "expected": j.expected, "tags": sc.tags})).unwrap());
        for r in &j.rendered {
            println!("----- {}\n{}", r.path, r.text);
        }
        break;
    }
    0
}

/// Prints the files, stdin and argv a replay file describes (for humans).
fn cmd_render(args: &[String]) -> i32 {
    let Some(path) = args.get(2) else { return 2 };
    let Ok(bytes) = std::fs::read(path) else { return 2 };
    let Ok(rf) = serde_json::from_slice::<ReplayFile>(&bytes) else { return 2 };
    let j = model::judge(&rf.world);
    println!("argv: blockwatch {:?}", rf.world.args.argv());
    for r in &j.rendered {
        println!("----- {}{}", r.path, if j.poisoned.contains(&r.path) { "  (poisoned)" } else { "" });
        for (i, l) in r.lines.iter().enumerate() {
            println!("{:3} {}", i + 1, l);
        }
    }
    let order: Vec<usize> = (0..rf.world.files.len()).filter(|&i| !matches!(rf.world.files[i].diff, world::FileDiff::None)).collect();
    if let Some(t) = rf.world.stdin_text(&j.rendered, &order) {
        println!("----- stdin\n{t}");
    }
    println!("expected: {}", serde_json::to_string(&j.expected).unwrap());
    0
}

fn cmd_loghash(args: &[String]) -> i32 {
    let prop = arg(args, "--prop").unwrap_or("C11");
    let seed = arg_u64(args, "--seed", 1);
    let start = arg_u64(args, "--start", 0);
    let count = arg_u64(args, "--count", 10);
    let level = arg(args, "--level").unwrap_or("a");
    let out = std::io::stdout();
    let mut out = out.lock();
    for i in start..start + count {
        let sc = props::scenario(prop, props::scenario_seed(seed, prop, i), false);
        for (k, (w, p)) in sc.runs.iter().enumerate() {
            let s = if level == "b" {
                // level B does not own the kernel schedule: only the schedule-invariant part of
                // the observation (kind, and the diagnostics / listing) is compared
                let r = levelb::run_level_b(w, p, None);
                match r.obs_kind.as_str() {
                    "report" | "listing" => serde_json::to_string(&r.rr["obs"]).unwrap(),
                    k => k.to_string(),
                }
            } else {
                let r = worker::run_forked(w, p);
                serde_json::to_string(&r.rr).unwrap()
            };
            let mut h: u64 = 0xcbf2_9ce4_8422_2325;
            for b in s.bytes() {
                h ^= b as u64;
                h = h.wrapping_mul(0x0000_0100_0000_01b3);
            }
            // runs in which the gate had to fall back (a unit arrived late / never arrived: machine
            // overload or a refactor) are not exactly replayable by design; mark them
            let unstable = s.contains("\"late_units\":") && !s.contains("\"late_units\":0")
                || s.contains("\"incomplete_units\":true");
            writeln!(out, "{prop} {i} {k} {}", if unstable { "UNSTABLE".to_string() } else { format!("{h:016x}") }).unwrap();
            if std::env::var("BWSIM_DUMP").is_ok() {
                writeln!(out, "{s}").unwrap();
            }
        }
    }
    0
}

#[derive(Serialize, Default)]
struct Summary {
    prop: String,
    scenarios: u64,
    runs_a: u64,
    runs_b: u64,
    nontrivial: u64,
    violations: u64,
    signatures: Vec<String>,
    interleavings: Vec<String>,
    probes: BTreeMap<String, u64>,
    faults_fired: BTreeMap<String, u64>,
    virt_ms: u64,
    wall_s: f64,
    replays: Vec<serde_json::Value>,
    samples: Vec<serde_json::Value>,
    level_b_matrix: BTreeMap<String, u64>,
    harness_errors: Vec<String>,
    budget_exhausted: bool,
}

fn cmd_run(args: &[String]) -> i32 {
    let prop = arg(args, "--prop").unwrap_or("C11").to_string();
    let thorough = arg(args, "--tier") == Some("thorough");
    let seed = arg_u64(args, "--seed", 1);
    let start = arg_u64(args, "--start", 0);
    let count = arg_u64(args, "--count", 10);
    let stride = arg_u64(args, "--stride", 1).max(1);
    let offset = arg_u64(args, "--offset", 0);
    let level = arg(args, "--level").unwrap_or("a").to_string();
    let b_every = arg_u64(args, "--b-every", 20).max(1);
    let budget_s = arg_u64(args, "--budget-s", 3600) as f64;
    let replay_dir = arg(args, "--replay-dir").unwrap_or("/verif/replays").to_string();
    let max_replays = arg_u64(args, "--max-replays", 2);
    let t0 = Instant::now();
    let mut sum = Summary {
        prop: prop.clone(),
        ..Default::default()
    };
    let mut sigs = std::collections::BTreeSet::new();
    let mut inters = std::collections::BTreeSet::new();
    let mut replay_sigs = std::collections::BTreeSet::new();
    let mut i = start + offset;
    while i < start + count {
        if t0.elapsed().as_secs_f64() > budget_s {
            sum.budget_exhausted = true;
            break;
        }
        let sseed = props::scenario_seed(seed, &prop, i);
        let sc = match std::panic::catch_unwind(|| props::scenario(&prop, sseed, thorough)) {
            Ok(s) => s,
            Err(e) => {
                let msg = e
                    .downcast_ref::<String>()
                    .cloned()
                    .unwrap_or_else(|| "generator panic".into());
                sum.harness_errors.push(format!("scenario {i}: {msg}"));
                i += stride;
                continue;
            }
        };
        sum.scenarios += 1;
        let mut reports = Vec::new();
        if level.contains('a') {
            for (w, p) in &sc.runs {
                let r = worker::run_forked(w, p);
                sum.runs_a += 1;
                reports.push(r);
            }
            let st = props::stats(&sc, &reports);
            if st.nontrivial {
                sum.nontrivial += 1;
                sigs.insert(st.signature.clone());
            }
            inters.insert(st.interleaving.clone());
            for (k, v) in st.probes {
                *sum.probes.entry(k).or_default() += v;
            }
            for (k, v) in st.faults_fired {
                *sum.faults_fired.entry(k).or_default() += v;
            }
            sum.virt_ms += st.virt_ms;
            if sum.samples.len() < 3 && st.nontrivial {
                let (w, p) = &sc.runs[0];
                sum.samples.push(serde_json::json!({
                    "scenario_index": i, "seed": sseed, "tags": sc.tags, "runs": sc.runs.len(),
                    "world": w, "plan": p,
                    "expected": model::judge(w).expected,
                    "observed": reports[0].rr["obs"],
                }));
            }
            for (k, r) in reports.iter().enumerate() {
                if r.mismatches.is_empty() {
                    continue;
                }
                sum.violations += 1;
                let (w, p) = &sc.runs[k];
                handle_violation(&prop, "A", sseed, i, w, p, r, &sc, &replay_dir, max_replays, &mut replay_sigs, &mut sum);
            }
        }
        if level.contains('b') && (i / stride) % b_every == 0 {
            for (w, p) in sc.runs.iter().take(if prop == "C20" { 4 } else { 1 }) {
                if !levelb::applicable(w) {
                    continue;
                }
                let r = levelb::run_level_b(w, p, Some(&mut sum.level_b_matrix));
                sum.runs_b += 1;
                for n in &r.harness_notes {
                    if sum.harness_errors.len() < 5 {
                        sum.harness_errors.push(format!("scenario {i} level B: {n}"));
                    }
                }
                if !r.mismatches.is_empty() {
                    sum.violations += 1;
                    handle_violation(&prop, "B", sseed, i, w, p, &r, &sc, &replay_dir, max_replays, &mut replay_sigs, &mut sum);
                }
            }
        }
        i += stride;
    }
    sum.signatures = sigs.into_iter().collect();
    sum.interleavings = inters.into_iter().collect();
    sum.wall_s = t0.elapsed().as_secs_f64();
    println!("{}", serde_json::to_string(&sum).unwrap());
    if !sum.harness_errors.is_empty() {
        return 2;
    }
    if sum.violations > 0 { 1 } else { 0 }
}

#[allow(clippy::too_many_arguments)]
fn handle_violation(
    prop: &str,
    level: &str,
    sseed: u64,
    index: u64,
    w: &world::World,
    p: &exec::Plan,
    r: &worker::ChildReport,
    sc: &props::Scenario,
    replay_dir: &str,
    max_replays: u64,
    replay_sigs: &mut std::collections::BTreeSet<String>,
    sum: &mut Summary,
) {
    let first = &r.mismatches[0];
    if first.clause.starts_with("harness-") {
        sum.violations -= 1;
        if sum.harness_errors.len() < 5 {
            sum.harness_errors.push(format!("scenario {index}: {}", first.detail));
        }
        return;
    }
    let is_hang = first.clause == "hang";
    if is_hang {
        // the watchdog measures wall-clock time: before a run counts as a hang it gets six times
        // as long (60 s / 120 s). A real hang never ends; a run starved by an overloaded machine does.
        worker::WATCHDOG_SCALE.store(6, std::sync::atomic::Ordering::SeqCst);
        let again = if level == "A" { worker::run_forked(w, p) } else { levelb::run_level_b(w, p, None) };
        worker::WATCHDOG_SCALE.store(1, std::sync::atomic::Ordering::SeqCst);
        if !again.mismatches.iter().any(|m| m.clause == "hang") {
            sum.violations -= 1;
            *sum.probes.entry("watchdog_expired_but_run_finished_when_given_more_time".to_string()).or_default() += 1;
            return;
        }
    }
    if level == "A" && !is_hang {
        // level A is deterministic: a violation that a fresh child does not reproduce is a
        // fault of the harness (nondeterminism, overload), not of blockwatch
        let again = worker::run_forked(w, p);
        if !again.mismatches.iter().any(|m| m.clause == first.clause) {
            sum.violations -= 1;
            if sum.harness_errors.len() < 5 {
                sum.harness_errors.push(format!(
                    "scenario {index}: level-A violation `{}` did not reproduce in a fresh child ({})",
                    first.clause, first.detail
                ));
            }
            return;
        }
    }
    let quick_sig = shrink::finding_signature(prop, &first.clause, w);
    if replay_sigs.contains(&quick_sig) || replay_sigs.len() as u64 >= max_replays {
        // already have a replay for this class from this worker
        sum.replays.push(serde_json::json!({"signature": quick_sig, "clause": first.clause, "path": null, "scenario_index": index}));
        return;
    }
    let runner: &dyn Fn(&world::World, &exec::Plan) -> worker::ChildReport = if level == "A" {
        &|w, p| worker::run_forked(w, p)
    } else {
        &|w, p| levelb::run_level_b(w, p, None)
    };
    // (a hang is not minimised: every candidate would cost a full watchdog period)
    let (mw, mp, mr, steps) = if is_hang {
        (w.clone(), p.clone(), r.clone(), 0)
    } else {
        shrink::minimise(w, p, &first.clause, runner, if level == "A" { 600 } else { 150 })
    };
    if is_hang {
        worker::WATCHDOG_SCALE.store(6, std::sync::atomic::Ordering::SeqCst);
    }
    // confirm in a fresh child
    let mut reproduced = 0;
    let confirms = if level == "A" { 1 } else { 3 };
    let mut last = mr.clone();
    for _ in 0..confirms {
        let again = runner(&mw, &mp);
        if again.mismatches.iter().any(|m| m.clause == first.clause) {
            reproduced += 1;
            last = again;
        }
    }
    let (mut mw, mut mp) = (mw, mp);
    if level == "B" && reproduced == 0 {
        // Level B does not own the kernel schedule, but its oracles are schedule-invariant: a
        // mismatch that shows neither on the minimised world (3 runs) nor, again, on the original
        // one (3 runs) is noise of the environment (a starved child, a timed-out socket), not an
        // observation to report. It is counted, with what was seen, and dropped.
        for _ in 0..3 {
            let again = runner(w, p);
            if again.mismatches.iter().any(|m| m.clause == first.clause) {
                reproduced += 1;
                last = again;
                mw = w.clone();
                mp = p.clone();
            }
        }
        if reproduced == 0 {
            worker::WATCHDOG_SCALE.store(1, std::sync::atomic::Ordering::SeqCst);
            sum.violations -= 1;
            *sum.probes.entry("level_b_mismatch_seen_once_never_again_in_6_reruns".to_string()).or_default() += 1;
            if sum.samples.len() < 8 {
                sum.samples.push(serde_json::json!({"level_b_unreproduced": {"scenario_index": index, "clause": first.clause, "detail": first.detail}}));
            }
            return;
        }
    }
    worker::WATCHDOG_SCALE.store(1, std::sync::atomic::Ordering::SeqCst);
    let m = last
        .mismatches
        .iter()
        .find(|m| m.clause == first.clause)
        .cloned()
        .unwrap_or_else(|| first.clone());
    let sig = shrink::finding_signature(prop, &m.clause, &mw);
    replay_sigs.insert(quick_sig);
    replay_sigs.insert(sig.clone());
    let rf = ReplayFile {
        property: prop.to_string(),
        level: level.to_string(),
        seed: sseed,
        scenario_index: index,
        clause: m.clause.clone(),
        detail: m.detail.clone(),
        signature: sig.clone(),
        minimised: true,
        shrink_steps: steps,
        expected: model::judge(&mw).expected,
        observed: last.rr["obs"].clone(),
        event_log: last.rr.clone(),
        world: mw,
        plan: mp,
        reproduced,
        tags: sc.tags.clone(),
    };
    let _ = std::fs::create_dir_all(replay_dir);
    let path = format!("{replay_dir}/{prop}-{level}-{sseed:016x}.json");
    let _ = std::fs::write(&path, serde_json::to_vec_pretty(&rf).unwrap());
    sum.replays.push(serde_json::json!({
        "signature": sig, "clause": m.clause, "detail": m.detail, "path": path,
        "scenario_index": index, "reproduced": reproduced, "level": level,
    }));
}

fn cmd_replay(args: &[String]) -> i32 {
    let Some(path) = args.get(2) else {
        eprintln!("usage: bwsim replay FILE");
        return 2;
    };
    let rf: ReplayFile = match std::fs::read(path).map_err(|e| e.to_string()).and_then(|b| serde_json::from_slice(&b).map_err(|e| e.to_string())) {
        Ok(r) => r,
        Err(e) => {
            eprintln!("cannot read replay file {path}: {e}");
            return 2;
        }
    };
    if let Some(why) = model::invalid_reason(&rf.world) {
        eprintln!("replay world is outside the modelled language: {why}");
        return 2;
    }
    let tries = if rf.level == "B" { 50 } else { 1 };
    for attempt in 0..tries {
        let r = if rf.level == "B" {
            levelb::run_level_b(&rf.world, &rf.plan, None)
        } else {
            worker::run_forked(&rf.world, &rf.plan)
        };
        if let Some(m) = r.mismatches.iter().find(|m| m.clause == rf.clause) {
            println!("expected: {}", serde_json::to_string(&model::judge(&rf.world).expected).unwrap());
            println!("observed: {}", r.rr["obs"]);
            println!("clause: {} — {}", m.clause, m.detail);
            println!("signature: {}", shrink::finding_signature(&rf.property, &m.clause, &rf.world));
            if rf.level == "A" {
                let same = r.rr == rf.event_log;
                println!("event log identical to the recorded one: {same}");
            } else {
                println!("reproduced at attempt {}", attempt + 1);
            }
            println!("VIOLATION property={} replay={}", rf.property, path);
            return 1;
        }
        if std::env::var("BWSIM_DUMP").is_ok() {
            println!("event_log: {}", r.rr);
        }
        if !r.mismatches.is_empty() && attempt + 1 == tries {
            println!("different violation now: {:?}", r.mismatches);
        }
    }
    println!("not reproduced: property={} held on replay of {}", rf.property, path);
    0
}

#[allow(dead_code)]
fn unused() {
    let _ = genw::expected_kind;
}
