//! Oracles: compare what a run observed with what the reference model demands, plus monitors
//! over the recorded history (Lua calls, endpoint requests). Shared by level A and level B.

use crate::exec::{Obs, ObsDiag, RunResult};
use crate::model::{self, ExpDiag, Expected, Judgement};
use crate::net::NetEvent;
use crate::world::*;
use serde::{Deserialize, Serialize};
use std::collections::BTreeMap;

#[derive(Serialize, Deserialize, Clone, Debug, PartialEq)]
pub struct Mismatch {
    /// Stable identifier of the violated clause (used for minimisation and known findings).
    pub clause: String,
    pub detail: String,
}

fn mm(clause: &str, detail: String) -> Mismatch {
    Mismatch {
        clause: clause.to_string(),
        detail,
    }
}

/// Maps an observed diagnostic to the identity the model uses (block start line).
pub fn normalise(d: &ObsDiag, j: &Judgement) -> ExpDiag {
    let mut block_line = d.line;
    if matches!(d.code.as_str(), "keep-sorted" | "keep-unique" | "line-pattern") {
        if let Some(r) = j.rendered.iter().find(|r| r.path == d.file) {
            let mut best: Option<&BlockLayout> = None;
            for b in &r.blocks {
                if b.start_line < d.line && d.line < b.end_line && b.attr(&d.code).is_some() {
                    if best.is_none_or(|x| x.start_line < b.start_line) {
                        best = Some(b);
                    }
                }
            }
            if let Some(b) = best {
                block_line = b.start_line;
            }
        }
    }
    ExpDiag {
        file: d.file.clone(),
        code: d.code.clone(),
        block_line,
        severity: d.severity,
        token: d.token.clone(),
    }
}

fn multiset_diff<T: Ord + Clone + std::fmt::Debug>(expected: &[T], observed: &[T]) -> (Vec<T>, Vec<T>) {
    let mut e: BTreeMap<&T, i64> = BTreeMap::new();
    for x in expected {
        *e.entry(x).or_default() += 1;
    }
    for x in observed {
        *e.entry(x).or_default() -= 1;
    }
    let mut missing = Vec::new();
    let mut extra = Vec::new();
    for (k, n) in e {
        for _ in 0..n.max(0) {
            missing.push(k.clone());
        }
        for _ in 0..(-n).max(0) {
            extra.push(k.clone());
        }
    }
    (missing, extra)
}

pub struct OracleCfg {
    /// Level B: Lua call log / request log are still available, Rejected cannot be told from
    /// Failed by kind (both are non-zero exits) — handled by the caller mapping.
    pub level_b: bool,
}

pub fn check(world: &World, j: &Judgement, rr: &RunResult, cfg: &OracleCfg) -> Vec<Mismatch> {
    let mut out = Vec::new();
    let Some(obs) = &rr.obs else {
        out.push(mm("no-observation", "run produced no observation".into()));
        return out;
    };
    // ---- the harness's own failures are not observations of blockwatch
    if let Some(h) = rr.panics.iter().find(|p| p.starts_with("HARNESS:")) {
        out.push(mm("harness-panic", h.clone()));
        return out;
    }
    // ---- no escape
    if let Obs::Panicked(m) = obs {
        out.push(mm("panic", format!("panic crossed the pipeline: {m}")));
    }
    if !rr.panics.is_empty() && !matches!(obs, Obs::Panicked(_)) {
        out.push(mm("panic", format!("panic on a worker thread: {}", rr.panics.join(" | "))));
    }
    if matches!(obs, Obs::Hang) {
        out.push(mm("hang", "run did not finish before the watchdog".into()));
    }
    if let Obs::Crashed(m) = obs {
        out.push(mm("crash", m.clone()));
    }
    if !out.is_empty() {
        return out;
    }

    // ---- retryable endpoint statuses (429 rate limit, 5xx): the property does not say whether a
    // block whose request is first turned away and then answered follows the answer or fails the
    // run; both are accepted (never a pass that the final answer does not justify). The allowance
    // is the number of extra requests the retries may cost.
    let mut retry_allowance: BTreeMap<String, Option<u32>> = BTreeMap::new();
    for t in &j.ai_tokens {
        if let Some(r) = world.ai.get(t) {
            if r.uses_retries() {
                retry_allowance.insert(t.clone(), r.retry_allowance());
            }
        }
    }
    let may_fail = !retry_allowance.is_empty();

    // ---- refinement
    match (&j.expected, obs) {
        (Expected::Rejected(_), Obs::Rejected(_)) => {}
        (Expected::Rejected(_), Obs::Failed(_)) if cfg.level_b => {}
        (Expected::Rejected(why), o) => out.push(mm(
            "rejected-flags-accepted",
            format!("flags must be rejected ({why}) but the run went on: {}", o.kind()),
        )),
        (Expected::Failed(_), Obs::Failed(_)) => {}
        (Expected::Failed(why), Obs::Report(d)) => out.push(mm(
            "fail-open",
            format!(
                "run must fail ({}) but reported {} diagnostics as if complete",
                why.join("; "),
                d.len()
            ),
        )),
        (Expected::Failed(why), o) => out.push(mm(
            "fail-open",
            format!("run must fail ({}) but was {}", why.join("; "), o.kind()),
        )),
        (Expected::Report(exp), Obs::Report(got)) => {
            let got_n: Vec<ExpDiag> = got.iter().map(|d| normalise(d, j)).collect();
            let (missing, extra) = multiset_diff(exp, &got_n);
            if !missing.is_empty() {
                out.push(mm(
                    "diag-missing",
                    format!("{} diagnostic(s) missing, e.g. {:?}", missing.len(), missing[0]),
                ));
            }
            if !extra.is_empty() {
                out.push(mm(
                    "diag-extra",
                    format!("{} unexpected diagnostic(s), e.g. {:?}", extra.len(), extra[0]),
                ));
            }
            if let Some(bad) = got.iter().find(|d| !d.well_formed) {
                out.push(mm(
                    "diag-malformed",
                    format!("diagnostic lacks range/code/message/severity 1-4: {bad:?}"),
                ));
            }
        }
        (Expected::Report(_), Obs::Failed(_)) if may_fail => {}
        (Expected::Report(exp), Obs::Failed(e)) => out.push(mm(
            "spurious-failure",
            format!("run must report {} diagnostic(s) but failed: {e}", exp.len()),
        )),
        (Expected::Report(_), o) => out.push(mm(
            "wrong-kind",
            format!("expected a report, got {}", o.kind()),
        )),
        (Expected::Listing(exp), Obs::Listing(got)) => {
            let (missing, extra) = multiset_diff(exp, got);
            if !missing.is_empty() {
                out.push(mm(
                    "list-missing",
                    format!("{} block(s) missing from list, e.g. {:?}", missing.len(), missing[0]),
                ));
            }
            if !extra.is_empty() {
                out.push(mm(
                    "list-extra",
                    format!("{} unexpected block(s) in list, e.g. {:?}", extra.len(), extra[0]),
                ));
            }
        }
        (Expected::Listing(_), Obs::Failed(e)) => {
            out.push(mm("spurious-failure", format!("list must succeed but failed: {e}")))
        }
        (Expected::Listing(_), o) => {
            out.push(mm("wrong-kind", format!("expected a listing, got {}", o.kind())))
        }
    }

    // ---- monitors over the history
    let requests: Vec<&crate::net::RecordedRequest> = rr
        .net_log
        .iter()
        .filter_map(|e| match e {
            NetEvent::Request { request, .. } => Some(request.as_ref()),
            _ => None,
        })
        .collect();
    let bad_requests: Vec<&String> = rr
        .net_log
        .iter()
        .filter_map(|e| match e {
            NetEvent::BadRequest { why, .. } => Some(why),
            _ => None,
        })
        .collect();
    let lua_logged = matches!(world.env.lua_mode.as_deref(), Some("safe") | Some("unsafe"));
    let lua_call_tokens: Vec<String> = rr
        .lua_calls
        .iter()
        .map(|p| p.split('\u{1f}').next().unwrap_or("").to_string())
        .collect();

    match &j.expected {
        Expected::Rejected(_) | Expected::Listing(_) => {
            if !requests.is_empty() || !rr.lua_calls.is_empty() {
                out.push(mm(
                    "validated-despite-rejection",
                    format!(
                        "{} endpoint request(s) and {} Lua call(s) although nothing may be validated",
                        requests.len(),
                        rr.lua_calls.len()
                    ),
                ));
            }
        }
        Expected::Failed(_) => {
            let mut seen = BTreeMap::new();
            for r in &requests {
                *seen.entry(r.token.clone()).or_insert(0) += 1;
            }
            // at most one request per block (the same prompt may sit on several blocks)
            let mut allowed: BTreeMap<String, i32> = BTreeMap::new();
            for s in &j.selected {
                if let Some(t) = s.layout.attr("check-ai").and_then(model::find_ai_token) {
                    *allowed.entry(t).or_insert(0) += 1;
                }
            }
            for (t, extra) in &retry_allowance {
                match extra {
                    Some(k) => *allowed.entry(t.clone()).or_insert(0) += *k as i32,
                    None => {
                        allowed.insert(t.clone(), i32::MAX);
                    }
                }
            }
            if let Some((t, n)) = seen
                .iter()
                .find(|(t, n)| **n > allowed.get(*t).copied().unwrap_or(0).max(1))
            {
                out.push(mm(
                    "ai-request-duplicated",
                    format!("{n} requests for {t}, written on {} block(s)", allowed.get(t).copied().unwrap_or(0)),
                ));
            }
            let mut seen = BTreeMap::new();
            for t in &lua_call_tokens {
                *seen.entry(t.clone()).or_insert(0) += 1;
            }
            if let Some((t, n)) = seen.iter().find(|(_, n)| **n > 1) {
                out.push(mm("lua-call-duplicated", format!("{n} calls for {t}")));
            }
        }
        Expected::Report(_) => {
            // exactly one request per evaluated AI block
            // (a block behind `k` retryable statuses costs k more: a complete run cannot have
            // sent fewer, since each of those k requests ended without an answer, nor more)
            let got: Vec<String> = requests.iter().map(|r| r.token.clone()).collect();
            let mut want = j.ai_tokens.clone();
            for (t, extra) in &retry_allowance {
                for _ in 0..extra.unwrap_or(0) {
                    want.push(t.clone());
                }
            }
            let (missing, extra) = multiset_diff(&want, &got);
            if matches!(obs, Obs::Report(_)) {
                if !missing.is_empty() {
                    out.push(mm("ai-request-missing", format!("no request for {missing:?}")));
                }
                if !extra.is_empty() {
                    out.push(mm("ai-request-extra", format!("unexpected/duplicate request for {extra:?}")));
                }
            }
            if !bad_requests.is_empty() {
                out.push(mm("ai-request-malformed", format!("{:?}", bad_requests[0])));
            }
            if lua_logged && matches!(obs, Obs::Report(_)) {
                let (missing, extra) = multiset_diff(&j.lua_tokens, &lua_call_tokens);
                if !missing.is_empty() {
                    out.push(mm("lua-call-missing", format!("validate() never called for {missing:?}")));
                }
                if !extra.is_empty() {
                    out.push(mm("lua-call-extra", format!("validate() called again/unexpectedly for {extra:?}")));
                }
            }
        }
    }

    // ---- faithful arguments (whenever a call / request was recorded)
    if lua_logged {
        let mut expected_payloads: BTreeMap<String, String> = BTreeMap::new();
        for s in &j.selected {
            if let (Some(tok), Some(_)) = (s.layout.attr("x-tok"), s.layout.attr("check-lua")) {
                let content = match s.layout.attr("check-lua-pattern") {
                    Some(p) if !model::INVALID_PATTERNS.contains(&p) => {
                        model_extract(p, &s.layout.content)
                    }
                    Some(_) => continue,
                    None => model::trim_content(&s.layout.content).to_string(),
                };
                expected_payloads.insert(tok.to_string(), model::lua_payload(&s.file, &s.layout, &content));
            }
        }
        for p in &rr.lua_calls {
            let tok = p.split('\u{1f}').next().unwrap_or("");
            match expected_payloads.get(tok) {
                Some(e) if e == p => {}
                Some(e) => out.push(mm(
                    "lua-args-unfaithful",
                    format!("validate() for {tok} received {p:?}, expected {e:?}"),
                )),
                None => out.push(mm(
                    "lua-call-extra",
                    format!("validate() called for {tok:?}, which is not a selected check-lua block"),
                )),
            }
        }
    }
    let key = world.env.ai_key.clone().unwrap_or_default();
    for r in &requests {
        // candidates: every selected check-ai block whose condition carries the request's token
        // (several when the same prompt is written on more than one block)
        let candidates: Vec<&crate::model::SelBlock> = j
            .selected
            .iter()
            .filter(|s| {
                s.layout
                    .attr("check-ai")
                    .and_then(model::find_ai_token)
                    .is_some_and(|t| t == r.token)
            })
            .collect();
        if candidates.is_empty() {
            out.push(mm(
                "ai-request-extra",
                format!("request with token {:?} matches no selected check-ai block", r.token),
            ));
            continue;
        }
        let want_path = format!("{}/chat/completions", world.env.ai_base_path);
        let mut best: Option<Vec<String>> = None;
        for sel in candidates {
            let cond = sel.layout.attr("check-ai").unwrap_or("");
            let content = match sel.layout.attr("check-ai-pattern") {
                Some(p) if !model::INVALID_PATTERNS.contains(&p) => model_extract(p, &sel.layout.content),
                Some(_) => {
                    best = Some(vec![]);
                    break;
                }
                None => model::trim_content(&sel.layout.content).to_string(),
            };
            let mut bad = Vec::new();
            if r.method != "POST" {
                bad.push(format!("method {}", r.method));
            }
            if r.path != want_path {
                bad.push(format!("path {:?} != {:?}", r.path, want_path));
            }
            if r.authorization != format!("Bearer {key}") {
                bad.push(format!("authorization {:?}", r.authorization));
            }
            if let Some(m) = &world.env.ai_model {
                if &r.model != m {
                    bad.push(format!("model {:?} != {:?}", r.model, m));
                }
            }
            // verbatim: the condition as written in the attribute, blanks at its ends included
            if !r.user.contains(cond) {
                bad.push(format!("condition {:?} not verbatim in user message {:?}", cond, r.user));
            }
            if !r.user.contains(&content) {
                bad.push(format!("content {:?} not verbatim in user message {:?}", content, r.user));
            } else if sel.layout.attr("check-ai-pattern").is_some() {
                // "the extract", not more: what is left of the message once the condition and the
                // extract are taken out (the template's own words) must not hold further lines of
                // the block
                let mut rest = r.user.clone();
                if let Some(i) = rest.rfind(&content) {
                    rest.replace_range(i..i + content.len(), "");
                }
                if let Some(i) = rest.find(cond) {
                    rest.replace_range(i..i + cond.len(), "");
                }
                for line in sel.layout.content.lines() {
                    let t = line.trim();
                    if t.len() >= 3 && !content.contains(t) && !cond.contains(t) && rest.contains(t) {
                        bad.push(format!(
                            "user message carries more of the block than the extract {:?}: also {:?}",
                            content, t
                        ));
                        break;
                    }
                }
            }
            if bad.is_empty() {
                best = Some(bad);
                break;
            }
            if best.as_ref().is_none_or(|b| b.len() > bad.len()) {
                best = Some(bad);
            }
        }
        if let Some(bad) = best {
            if !bad.is_empty() {
                out.push(mm("ai-request-unfaithful", bad.join("; ")));
            }
        }
    }
    out
}


fn model_extract(pattern: &str, content: &str) -> String {
    // re-use the model's reference matcher through a one-block judgement-free path
    crate::model::content_extract_pub(pattern, content)
}
